"""Checks for the application-level family: C12 (ordering contract), C13 (runners), C14 (Close).

(A) TLC explores spec/App.tla (and spec/Ordering.tla) over constructive families;
(B) real App.Run / App.Close executions with participants of every ordering class are recorded (one event
    per callback, global sequence numbers under one mutex) and validated by TraceApp.tla (conformance and
    monitor); for C12 TLC also exports every participant sequence up to a bound and the REAL
    SortOrderedComponents is run on each (TraceOrdering.tla checks the results).
"""
import json, os, random, threading
import vlib, engine_lib as el, app_lib as al

INV = {
    "C12": ["C12_Loaders", "C12_Runners", "C12_Procs", "C12_Early"],
    "C13": ["C13_Once", "C13_All", "C13_AfterReady", "C13_StopAtError", "C13_ErrorReported", "C09_NoRunnerAfterFailure", "C05_InitOnce"],
    "C14": ["C14_WaitsAll", "C14_Isolation"],
}
PROPS = {"C12": [], "C13": [], "C14": ["C14_Once"]}
TR_INV = {   # conformance layer (ENABLED-based operators stay in the model runs)
    "C12": ["C12_Loaders", "C12_Runners", "C12_Procs", "C12_Early"],
    "C13": ["C13_Once", "C13_All", "C13_AfterReady", "C13_StopAtError", "C13_ErrorReported", "C09_NoRunnerAfterFailure", "C05_InitOnce"],
    "C14": ["C14_WaitsAll"],
}
MON_INV = {
    "C12": ["M_WellFormed", "C12_Loaders", "C12_Runners", "C12_Procs", "C12_Early", "M_C12_EarlyComplete", "M_C12_AfterComplete", "M_C12_LoadersComplete", "M_C13_AllRunners"],
    "C13": ["M_WellFormed", "C13_Once", "C13_StopAtError", "C13_ErrorReported", "C09_NoRunnerAfterFailure", "C05_InitOnce",
            "M_C13_AllRunners", "M_C13_AfterReady", "M_C09_NoPanic", "C12_Runners"],
    "C14": ["M_WellFormed", "C14_WaitsAll", "M_C14_ClosedAll"],
}
MON_PROPS = {"C12": ["M_C12_ProcsComplete"], "C13": [], "C14": ["M_C14_Isolation"]}
MC_INITS = {
    ("C12", "quick"): [("InitProcs", 3), ("InitLoaders", 3)],
    ("C12", "thorough"): [("InitProcs", 4), ("InitLoaders", 4), ("InitRunners", 3)],
    ("C13", "quick"): [("InitRunners", 2)],
    ("C13", "thorough"): [("InitRunners", 3)],
    ("C14", "quick"): [("InitClosers", 1)],
    ("C14", "thorough"): [("InitClosers", 1)],
}


def model_check(run, prop, tier, wd):
    notes = []
    vlib.stage_specs(wd, ["Ordering.tla", "App.tla", "MCApp.tla"])
    for init, mp in MC_INITS[(prop, tier)]:
        cfg = "%s_%d.cfg" % (init, mp)
        vlib.write_cfg(os.path.join(wd, cfg), constants=dict(Scenarios="{}", MaxParts=mp, Orders="<- SmallOrders"),
                       init=init, next_="Next", invariants=INV[prop], properties=PROPS[prop])
        r = vlib.run_tlc(wd, "MCApp", cfg, workers=8, timeout=3000 if tier == "thorough" else 400, jvm=vlib.JVM_BIG)
        run.add_model_run("App %s MaxParts=%d" % (init, mp), r)
        if not r.ok:
            notes.append((init, r))
    if prop == "C14":
        # liveness: under weak fairness of each closer goroutine, Close eventually returns (0-4 closers)
        cfg = "closers_live.cfg"
        with open(os.path.join(wd, cfg), "w") as f:
            f.write("CONSTANTS\n  Scenarios = {}\n  MaxParts = 1\n  Orders <- SmallOrders\nINIT InitClosers\nNEXT Next\n"
                    "PROPERTY C14_AllEventuallyFair\nCHECK_DEADLOCK FALSE\n")
        with open(os.path.join(wd, "MCApp.tla")) as f:
            src = f.read()
        src = src.replace("=============================================================================",
                          "Fairness == WF_vars(CloseReturn) /\\ \\A j \\in 1..4 : WF_vars(CloserBegin(j)) /\\ WF_vars(CloserEnd(j))\n"
                          "C14_AllEventuallyFair == Fairness => C14_AllEventually\n"
                          "=============================================================================")
        with open(os.path.join(wd, "MCApp.tla"), "w") as f:
            f.write(src)
        r = vlib.run_tlc(wd, "MCApp", cfg, workers=4, timeout=600, jvm=vlib.JVM_BIG)
        run.add_model_run("App InitClosers liveness: Close returns under fair closers", r)
        if not r.ok:
            notes.append(("liveness", r))
    return notes


def sort_phase(run, tier, wd, binary):
    """C12, spec -> implementation: every participant sequence up to the bound through the real sort."""
    sd = os.path.join(wd, "sort")
    os.makedirs(sd)
    vlib.stage_specs(sd, ["Ordering.tla", "MCOrdering.tla", "TraceOrdering.tla"])
    mp = 4 if tier == "quick" else 5
    vlib.write_cfg(os.path.join(sd, "mo.cfg"), constants=dict(MaxParts=mp, OutFile='"cases.ndjson"'), spec="Spec",
                   invariants=["StepwiseSorted", "NeverStuck"])
    # (16^5 sequences at MaxParts = 5: above TLC's default bound on enumerated sets)
    r = vlib.run_tlc(sd, "MCOrdering", "mo.cfg", workers=4, timeout=1800, jvm=vlib.JVM_BIG, extra=["-maxSetSize", "4000000"])
    run.add_model_run("Ordering: stepwise = global formulation; export of all sequences up to %d participants" % mp, r)
    if not r.ok:
        raise vlib.Infra("MCOrdering failed: %s" % r.violated)
    # ... and seeded LARGE participant sets (13-48: sort implementations switch algorithms with the length), all classes mixed
    rng = random.Random(run.seed * 4099 + 12)
    ords = [-1000000, -7, -1, 0, 0, 1, 2, 5, 1000000]
    with open(os.path.join(sd, "cases.ndjson"), "a") as f:
        for _ in range(400 if tier == "quick" else 6000):
            n = rng.randint(13, 48)
            parts = []
            for _ in range(n):
                c = rng.choice(["prio", "ord", "ord", "un", "mark"])
                parts.append(dict(cls=c, ord=0 if c == "mark" else rng.choice(ords)))
            f.write(json.dumps(dict(parts=parts)) + "\n")
    p = vlib.run_harness(binary, ["sort", "-in", "cases.ndjson", "-out", "sorted.ndjson"], cwd=sd)
    if p.returncode != 0:
        raise vlib.Infra("sort harness failed: " + p.stderr[-800:])
    lines = open(os.path.join(sd, "sorted.ndjson")).readlines()
    groups = [[x] for x in lines]
    # one validation unit = chunks of lines (no header lines in this trace format)
    chunks = [sum(groups[i:i + 20000], []) for i in range(0, len(groups), 20000)]
    total = 0
    for ci, ch in enumerate(chunks):
        path = os.path.join(sd, "chunk.ndjson")
        with open(path, "w") as f:
            f.writelines(ch)
        rr = el.tlc_trace(sd, "TraceOrdering", path, {}, ["C12_SortedPermutation"], [], "so%d" % ci, spec="MonitorSpec")
        run.cov["states"] += rr.distinct
        run.cov["transitions"] += rr.generated
        if not rr.ok:
            if rr.kind == "invariant":
                k = el._last_state_no(rr.out)
                bad = json.loads(ch[k - 2]) if k and k >= 2 else None
                run.violation("SortOrderedComponents returned a sequence that is not a sorted permutation", dict(kind="sort", case=bad, tlc=rr.error_text[:1500]))
            else:
                raise vlib.Infra("TraceOrdering: %s" % rr.error_text[:500])
        total += len(ch)
    run.cov["sort_cases_through_real_code"] = total
    run.cov["traces_validated_against_impl"] += total
    run.sample(dict(sort_case=json.loads(lines[len(lines) // 2])))
    for ln in lines[::7]:
        run.count_case(ln, True)


def real_phase(run, prop, tier, wd, binary, scs, tr_inv, mon_inv, mon_props, tag="b"):
    """(B) real App.Run/Close executions validated by TraceApp.tla; registers violations; returns drift count"""
    bd = os.path.join(wd, tag)
    os.makedirs(bd)
    vlib.stage_specs(bd, ["Ordering.tla", "App.tla", "TraceApp.tla"])
    vlib.write_ndjson(os.path.join(bd, "in.ndjson"), scs)
    p = vlib.run_harness(binary, ["app", "-in", "in.ndjson", "-out", "at.ndjson"], cwd=bd, timeout=1800)
    if p.returncode != 0:
        raise vlib.Infra("app harness failed: " + p.stderr[-1500:])
    groups = el.split_trace(os.path.join(bd, "at.ndjson"))
    if len(groups) != len(scs):
        raise vlib.Infra("harness produced %d groups for %d scenarios" % (len(groups), len(scs)))
    consts = dict(Scenarios="<- TraceScenarios")
    res, errs = {}, []
    def mon():
        res["mon"] = el.validate_groups(bd, groups, "TraceApp", consts, mon_inv, mon_props, "mon", spec="MonitorSpec")
    def conf():
        res["conf"] = el.validate_groups(bd, groups, "TraceApp", consts, tr_inv, [], "conf")
    def g(fn):
        try:
            fn()
        except Exception as e:
            errs.append(e)
    ts = [threading.Thread(target=g, args=(fn,)) for fn in (mon, conf)]
    for t in ts:
        t.start()
    for t in ts:
        t.join()
    if errs:
        raise errs[0]
    drift = 0
    for layer in ("mon", "conf"):
        st, fails = res[layer]
        run.cov["states"] += st["states"]
        run.cov["transitions"] += st["generated"]
        for f in fails:
            g0 = groups[f["group"]]
            sc0 = json.loads(g0[0])["sc"]
            if f["kind"] == "postcondition":
                if layer == "mon":
                    raise vlib.Infra("monitor could not consume a trace: " + f["tlc"][:500])
                drift += 1
                if drift <= 3:
                    vlib.log("DRIFT module=App scenario=%s line=%d: %s" % (sc0["id"], f["line"], g0[min(f["line"], len(g0)) - 1].strip()[:300]))
                continue
            what = "%s: %s %s violated at event %d of scenario %s" % ("monitor" if layer == "mon" else "conformance",
                                                                     f["kind"], f["name"], f["line"] - 1, sc0["id"])
            run.violation(what, dict(family="app", scenario=sc0, operator=f["name"], trace=[json.loads(x) for x in g0[1:]][:200], tlc=f["tlc"][:2500]))
    run.cov["traces_validated_against_impl"] += len(groups)
    for sc in scs:
        nontrivial = bool(sc["procs"] or sc["runners"] or sc["loaders"] or sc["closers"])
        run.count_case({k: sc[k] for k in ("loaders", "procs", "runners", "closers", "comps", "initFail", "closeOrder", "seed")}, nontrivial)
    for g0 in groups[:3]:
        run.sample([json.loads(x) for x in g0[:12]])
    return drift


def run_check(prop, tier, replay=None, label=None):
    run = vlib.Run(label or prop, tier, "model_checking")
    run.write_evidence = replay is None
    rng = random.Random(run.seed * 31337 + int(prop[1:]))
    wd = vlib.scratch_dir(prop)
    try:
        notes, mc_err = [], []
        th = None
        if replay is None:
            os.makedirs(os.path.join(wd, "mc"))
            def guarded():
                try:
                    notes.extend(model_check(run, prop, tier, os.path.join(wd, "mc")))
                except Exception as e:
                    mc_err.append(e)
            th = threading.Thread(target=guarded)
            th.start()
        binary = vlib.build_harness(wd)
        if replay is not None:
            scs = [json.load(open(replay))["replay"]["scenario"]]
        else:
            n = dict(quick=dict(C12=500, C13=600, C14=250), thorough=dict(C12=8000, C13=10000, C14=2500))[tier][prop]
            scs = [al.scenario(rng, "%s-%d" % (prop, i), prop, big=(tier == "thorough" and i % 3 == 0)) for i in range(n)]
            scs += [al.scenario(rng, "%s-m%d" % (prop, i), "mix") for i in range(n // 4)]
            if prop == "C14":
                # one start whose closers all stay blocked for several seconds after every one of them has been invoked: a Close
                # that stops waiting after some threshold returns while they are still running
                slow = al.scenario(rng, "C14-slow", "C14")
                slow["closers"] = [dict(cls="un", ord=0, fail=(j == 1), doc="") for j in range(3)]
                slow["closeOrder"] = [2, 3, 1]
                slow["hold"] = 6.5 if tier == "quick" else 16.0
                scs.append(slow)
        errs = []
        def srt():
            try:
                if prop == "C12" and replay is None:
                    sort_phase(run, tier, wd, binary)
            except Exception as e:
                errs.append(e)
        st = threading.Thread(target=srt)
        st.start()
        drift = real_phase(run, prop, tier, wd, binary, scs, TR_INV[prop], MON_INV[prop], MON_PROPS[prop])
        if prop == "C13" and replay is None:
            import check_engine
            drift += check_engine.runner_phase(run, tier, wd, binary, rng)
        st.join()
        if th:
            th.join()
            if mc_err:
                raise mc_err[0]
        if errs:
            raise errs[0]
        run.cov["rule"] = ("scenario = loaders x user post-processors x runners (each: ordering class, Order value incl. MinInt/MaxInt, "
                           "failing or not) x closers (failing subset, finishing order) x plain components (one may fail Init) x "
                           "registration order; non-trivial = at least one participant; distinct = distinct records")
        if drift:
            run.cov["model_binding"] = "drift"
            run.cov["drifted_scenarios"] = drift
            vlib.log("DRIFT: %d scenario(s) are not behaviours of App.tla / Container.tla (runner phase) although no property failed on them" % drift)
        for (name, r) in notes:
            vlib.log("MODEL-COUNTEREXAMPLE %s %s %s" % (name, r.kind, r.violated))
        if notes and not run.violations:
            raise vlib.Infra("App.tla admits a counterexample (%s): the specification needs fixing" % notes[0][1].violated)
        run.cov["exhaustive"] = True
        run.cov["explanation"] = "exhaustive = the listed TLC families were explored completely; real runs are seeded samples"
        run.assumptions += [
            "events are ordered by a sequence number taken under one harness mutex inside the callback",
            "closers are held on gates and released in the scenario's finishing order (sound for a sequential Close as well)",
            "Order extremes are encoded as +-1000000 in scenarios and mapped to MinInt/MaxInt by the harness (TLC integers are 32 bit)",
        ]
        return run.finish()
    finally:
        vlib.rm(wd)
