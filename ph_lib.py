"""Scenario generation for placeholder resolution (C16), with a mirror of the rewriting used ONLY to keep
scenarios inside the property's scope (no empty keys, no keys naming non-empty maps) - never as an oracle."""
import re, random
PH = re.compile(r"\$\{[^{}]*\}")
CFG_KEYS = ["a", "b", "c", "x.a", "x.b"]
TEXT_KEYS = ["a", "b", "c", "x.a", "x.b", "zz", "d"]


def gen_text(r, depth):
    parts = []
    for _ in range(1 + r.randrange(3)):
        k = r.randrange(6)
        if k == 0:
            parts.append(r.choice(["x", ".", ":", "$", "a", "}", "${", "{"]))
        elif k in (1, 2):
            parts.append("${" + r.choice(TEXT_KEYS) + "}")
        elif k == 3:
            parts.append("${" + r.choice(TEXT_KEYS) + ":" + r.choice(["", "x", "a:b", ".", "${a}", "b"]) + "}")
        elif k == 4:
            parts.append("${" + r.choice(["", "x.", "zz:", "d:"]) + gen_text(r, depth - 1) + "}" if depth > 0 else "b")
        else:
            parts.append(r.choice(["a", "b"]))
    return "".join(parts)


def gen_cfg(r, circular):
    keys, vals, kinds = [], [], []
    for k in CFG_KEYS:
        if r.randrange(3) == 0:
            continue
        kind = "str"
        c = r.randrange(6)
        if c == 0:
            v = r.choice(["x", "a", "b", "", "."])
        elif c == 1:
            v = "${" + r.choice(CFG_KEYS if circular else ["zz", "d"]) + "}"
        elif c == 2:
            # self-growing values (x${a} under key a) are rare: each costs ~1000 rewriting steps on a growing text
            v = "x${" + r.choice(["a", "b", "zz:x"] if (circular and r.random() < 0.3) else ["zz:x", "d:a"]) + "}"
        elif c == 3:
            v = r.choice(["a", "b", "a}", "x.a"])
        elif c == 4 and not k.startswith("x."):
            kind, v = r.choice(["emap", "elist"]), ""
        else:
            v = r.choice(["ab", "b.a"])
        keys.append(k); vals.append(v); kinds.append(kind)
    return keys, vals, kinds


def in_scope(text, keys, vals, kinds, bound=1100):
    """follow the rewriting; reject scenarios that ever look up an empty key or a key naming a (non-empty) map"""
    cfg = {k: v for k, v, kd in zip(keys, vals, kinds) if kd == "str"}
    empty = {k: ("{}" if kd == "emap" else "[]") for k, kd in zip(keys, kinds) if kd != "str"}
    maps = {k.split(".")[0] for k in keys if "." in k}
    s = text
    for _ in range(bound):
        m = PH.search(s)
        if not m:
            return True
        content = m.group(0)[2:-1]
        key, _, default = content.partition(":")
        if key == "" or key in maps or key.endswith(".") or key.startswith(".") or ".." in key:
            return False
        # (an empty map / list without default is rendered as "{}" / "[]", which can create an empty key)
        rep = cfg[key] if key in cfg else (default if default != "" else empty.get(key, ""))
        s = s[:m.start()] + rep + s[m.end():]
        if len(s) > 3000:
            return True     # self-growing: stays in scope (must end in an error)
    return True


def scenarios(rng, n, sid):
    out = []
    while len(out) < n:
        text = gen_text(rng, 2)
        if "${" not in text:
            if rng.random() < 0.8:
                continue
        keys, vals, kinds = gen_cfg(rng, circular=rng.random() < 0.35)
        if not in_scope(text, keys, vals, kinds):
            continue
        out.append(dict(id="%s-%d" % (sid, len(out)), text=text, keys=keys, vals=vals, kinds=kinds, limit=1200))
    return out
