"""Check for C20: races in the concurrent phases; atomicity of the concurrent containers.

(A) TLC: SyncMap.tla (all schedules of <= MaxOps operations by 2-3 goroutines over 1-2 keys: linearizability by brute
    force, one-winner) and ScanPhase.tla (happens-before race analysis of the scan wave with 0-3 failing scanners);
(B) TLC-exported schedules are replayed with real goroutines on the real sync2.Map / ConcurrentSets (the callback of
    LoadOrStoreFn is the gate) and the recorded outcomes are validated by TraceSyncMap.tla; real starts / shutdowns /
    container stress run under the Go race detector with the failing scanners gated to fail at the same moment.
"""
import json, os, random, re, threading
import vlib, engine_lib as el

# the component-definition registry as a concurrent object (what the goroutines of the scanning phase share); also run by C10
REG_CONFIGS = {
    "quick": [dict(G="{1, 2}", Keys="{1, 2}", OpKinds='{"RGetOrReg", "RReg", "RByName", "RMetas"}', MaxOps=3)],
    "thorough": [dict(G="{1, 2, 3}", Keys="{1, 2}", OpKinds='{"RGetOrReg", "RReg", "RByName", "RMetas"}', MaxOps=4)],
}
SM_CONFIGS = {
    "quick": [dict(G="{1, 2, 3}", Keys="{1}", OpKinds='{"LoadOrStoreFn", "Load", "Delete", "Store"}', MaxOps=3),
              dict(G="{1, 2}", Keys="{1, 2}", OpKinds='{"LoadOrStoreFn", "LoadOrStore", "Delete"}', MaxOps=3),
              dict(G="{1, 2}", Keys="{1}", OpKinds='{"Put", "Exists", "Remove", "LoadOrStoreFn"}', MaxOps=3)] + REG_CONFIGS["quick"],
    "thorough": [dict(G="{1, 2, 3}", Keys="{1}", OpKinds='{"LoadOrStoreFn", "Load", "Delete", "Store", "LoadOrStore"}', MaxOps=4),
                 dict(G="{1, 2}", Keys="{1, 2}", OpKinds='{"LoadOrStoreFn", "LoadOrStore", "Delete", "Load", "Store"}', MaxOps=4),
                 dict(G="{1, 2, 3}", Keys="{1}", OpKinds='{"Put", "Exists", "Remove", "LoadOrStoreFn"}', MaxOps=4),
                 dict(G="{1, 2, 3}", Keys="{1}", OpKinds='{"LoadOrStoreFn"}', MaxOps=5)] + REG_CONFIGS["thorough"],
}


def syncmap_phase(run, tier, wd, binary, configs=None, what="sync2.Map/ConcurrentSets"):
    sd = os.path.join(wd, "sm")
    os.makedirs(sd)
    vlib.stage_specs(sd, ["SyncMap.tla", "TraceSyncMap.tla"])
    drift = 0
    for i, c in enumerate(configs or SM_CONFIGS[tier]):
        consts = dict(c, Repaired="TRUE")
        vlib.write_cfg(os.path.join(sd, "sm%d.cfg" % i), constants=consts, spec="Spec",
                       invariants=["C20_Linearizable", "C20_OneWinner", "Export"])
        r = vlib.run_tlc(sd, "SyncMap", "sm%d.cfg" % i, workers=6, timeout=2400, jvm=vlib.JVM_BIG)
        run.add_model_run("SyncMap %s" % c, r)
        if not r.ok:
            raise vlib.Infra("SyncMap.tla (repaired model) violates %s: the specification needs fixing" % r.violated)
        sch = [json.loads(json.loads('"' + m + '"')) for m in re.findall(r'<<"SCHED", "(.*)">>', r.out)]
        if len(sch) > 60000:
            sch = random.Random(run.seed).sample(sch, 60000)
        vlib.write_ndjson(os.path.join(sd, "s.ndjson"), sch)
        p = vlib.run_harness(binary, ["syncmap", "-in", "s.ndjson", "-out", "st%d.ndjson" % i], cwd=sd, timeout=1800)
        if p.returncode != 0:
            raise vlib.Infra("syncmap replay failed: " + p.stderr[-800:])
        groups = el.split_trace(os.path.join(sd, "st%d.ndjson" % i), marker='"a":"hist"')
        stm, fm = el.validate_groups(sd, groups, "TraceSyncMap", consts, ["C20_OneWinner", "M_C20_Linearizable", "M_C20_Returns"], [], "m%d" % i, spec="MonitorSpec")
        stc, fc = el.validate_groups(sd, groups, "TraceSyncMap", consts, ["C20_OneWinner", "C20_Linearizable"], [], "c%d" % i)
        run.cov["states"] += stm["states"] + stc["states"]
        run.cov["transitions"] += stm["generated"] + stc["generated"]
        run.cov["traces_validated_against_impl"] += len(groups)
        for layer, fails in (("monitor", fm), ("conformance", fc)):
            for f in fails:
                hist = [json.loads(x) for x in groups[f["group"]][1:]]
                if f["kind"] == "postcondition":
                    if layer == "monitor":
                        raise vlib.Infra("syncmap monitor could not consume a history: " + f["tlc"][:400])
                    drift += 1
                    continue
                run.violation("real %s history (%s): %s violated" % (what if not any(a.get("op", "").startswith("R") and a.get("op") != "Remove" for a in hist) else "definition registry", layer, f["name"]),
                              dict(kind="syncmap", schedule=hist, operator=f["name"], tlc=f["tlc"][:1500]))
        for h in sch[:: max(1, len(sch) // 4000)]:
            run.count_case(h, any(a["a"] == "release" for a in h))
        if sch:
            run.sample(dict(schedule=sch[len(sch) // 2]))
    return drift


def regstress_phase(run, tier, wd, binary):
    """free-running histories of the real definition registry (no gates: interleavings INSIDE single operations), judged by
    TraceRegHist.tla: a definition whose registration returned is in every later enumeration"""
    sd = os.path.join(wd, "regstress")
    os.makedirs(sd)
    vlib.stage_specs(sd, ["TraceRegHist.tla"])
    total = 0
    for i, (rounds, g, per) in enumerate([(150, 6, 8), (60, 12, 6)] if tier == "quick" else [(1500, 6, 8), (600, 12, 6), (300, 16, 12)]):
        json.dump(dict(rounds=rounds, g=g, per=per, seed=run.seed), open(os.path.join(sd, "in.json"), "w"))
        p = vlib.run_harness(binary, ["regstress", "-in", "in.json", "-out", "rs%d.ndjson" % i], cwd=sd, timeout=900)
        if p.returncode != 0:
            m = re.search(r"fatal error: [^\n]*", p.stderr)
            if m and "github.com/go-kid/ioc/" in p.stderr:
                # the Go runtime stopped the process inside the library's containers (concurrent map access, unlock of an
                # unlocked mutex, ...): that IS what the real registry did under concurrent use
                run.violation("real definition registry, free-running history of %d goroutines: the process died with '%s' inside go-kid/ioc" % (g, m.group(0)),
                              dict(kind="regstress", goroutines=g, per=per, fatal=m.group(0), stack=p.stderr[:3000]))
                return
            raise vlib.Infra("regstress failed: " + p.stderr[-800:])
        groups = el.split_trace(os.path.join(sd, "rs%d.ndjson" % i), marker='"a":"hist"')
        st, fails = el.validate_groups(sd, groups, "TraceRegHist", {}, ["M_C10_NoLostDefinition", "M_C20_NoPhantomDefinition",
                                                                         "M_C20_LookupFindsRegistered", "M_C20_OneWinnerPerName", "M_C20_RegistryReturns"], [], "rh%d" % i,
                                       spec="MonitorSpec", max_failures=3)
        run.cov["states"] += st["states"]
        run.cov["transitions"] += st["generated"]
        run.cov["traces_validated_against_impl"] += len(groups)
        total += len(groups)
        for f in fails:
            if f["kind"] == "postcondition":
                raise vlib.Infra("registry history monitor could not consume a history: " + f["tlc"][:400])
            hist = [json.loads(x) for x in groups[f["group"]][1:]]
            run.violation("real definition registry, free-running history of %d goroutines: %s violated" % (g, f["name"]),
                          dict(kind="regstress", goroutines=g, per=per, history=hist[:400], operator=f["name"], tlc=f["tlc"][:1500]))
    run.cov["registry_stress_histories"] = total
    run.count_case(dict(kind="regstress", tier=tier), True)


def scan_model(run, tier, wd):
    sd = os.path.join(wd, "scan")
    os.makedirs(sd)
    vlib.stage_specs(sd, ["ScanPhase.tla"])
    gs = "{1, 2, 3}" if tier == "quick" else "{1, 2, 3, 4}"
    n = 3 if tier == "quick" else 4
    for k in range(0, n + 1):
        failing = "{" + ", ".join(str(i) for i in range(1, k + 1)) + "}"
        cfg = "scan%d.cfg" % k
        vlib.write_cfg(os.path.join(sd, cfg), constants=dict(G=gs, Failing=failing, UseMutex="TRUE"), spec="Spec",
                       invariants=["C20_RaceFree", "AllErrorsKept"])
        r = vlib.run_tlc(sd, "ScanPhase", cfg, workers=4, timeout=1200, jvm=vlib.JVM_BIG)
        run.add_model_run("ScanPhase G=%s failing=%d (happens-before race analysis)" % (gs, k), r)
        if not r.ok:
            raise vlib.Infra("ScanPhase.tla (repaired model) violates %s" % r.violated)


def race_phase(run, tier, wd):
    rd = os.path.join(wd, "race")
    os.makedirs(rd)
    binary = vlib.build_harness(rd, race=True)
    rng = random.Random(run.seed)
    scs = []
    reps = 2 if tier == "quick" else 8
    for _ in range(reps):
        for n, k in [(3, 0), (3, 1), (4, 2), (5, 3), (6, 6), (12, 5)] + ([(30, 30), (60, 17)] if tier == "thorough" else []):
            scs.append(dict(kind="scan", n=n, failing=k, iter=0))
        for n, k in [(0, 0), (1, 1), (4, 2), (6, 6)] + ([(40, 20)] if tier == "thorough" else []):
            scs.append(dict(kind="close", n=n, failing=k, iter=0))
        scs.append(dict(kind="maps", n=rng.choice([4, 8]), failing=0, iter=400 if tier == "quick" else 5000))
    recs = []
    for i, sc in enumerate(scs):
        json.dump(sc, open(os.path.join(rd, "sc.json"), "w"))
        for f in os.listdir(rd):
            if f.startswith("racelog"):
                os.remove(os.path.join(rd, f))
        p = vlib.run_harness(binary, ["race", "-in", "sc.json"], cwd=rd, timeout=120,
                             env_extra={"GORACE": "log_path=%s halt_on_error=0 exitcode=0" % os.path.join(rd, "racelog")})
        if p.returncode != 0:
            raise vlib.Infra("race harness failed: " + p.stderr[-800:])
        rec = json.loads(p.stdout.strip().splitlines()[-1])
        report = ""
        for f in os.listdir(rd):
            if f.startswith("racelog"):
                report += open(os.path.join(rd, f)).read()
        rec["race"] = "DATA RACE" in report
        rec["report"] = report[:1500] if rec["race"] else ""
        recs.append(rec)
    leaked = max([r.get("inflight", 0) for r in recs] + [0])
    run.cov["scanner_calls_in_flight_when_run_returned"] = leaked
    if leaked:
        vlib.log("DRIFT: Run returned while %d scanner call(s) were still in flight (ScanPhase.tla joins the scan phase before returning); "
                 "a verdict needs the race detector's report on what the caller does next" % leaked)
        run.cov["model_binding"] = "drift"
    lines = [dict({k: v for k, v in r.items() if k not in ("report", "inflight")}, incoherent=r.get("incoherent", 0), hung=bool(r.get("hung", False))) for r in recs]
    vlib.write_ndjson(os.path.join(rd, "rt.ndjson"), lines)
    vlib.stage_specs(rd, ["TraceScan.tla"])
    # Verdicts: a reported race, or a wrong outcome (Run succeeding although a scanner failed, Close not returning).  That the
    # aggregated error names EVERY failing scanner is what ScanPhase.tla's guarded append gives, but the property does not demand it
    # (an implementation reporting only the first failure is race-free): a difference there is drift, not a violation.
    r = el.tlc_trace(rd, "TraceScan", os.path.join(rd, "rt.ndjson"), {}, ["C20_RaceFree", "C20_Outcome"], [], "ts",
                     spec="MonitorSpec")
    if r.ok:
        r2 = el.tlc_trace(rd, "TraceScan", os.path.join(rd, "rt.ndjson"), {}, ["C20_AllErrorsKept"], [], "ts2", spec="MonitorSpec")
        run.cov["all_concurrent_failures_reported"] = bool(r2.ok)
        if not r2.ok and r2.kind == "invariant":
            vlib.log("DRIFT: some concurrent scanner failures are missing from Run's error although no race was reported "
                     "(ScanPhase.tla keeps all of them); not a violation of C20")
            run.cov["model_binding"] = "drift"
    run.cov["states"] += r.distinct
    run.cov["transitions"] += r.generated
    run.cov["traces_validated_against_impl"] += len(recs)
    run.cov["race_detector_runs"] = len(recs)
    if not r.ok:
        if r.kind != "invariant":
            raise vlib.Infra("TraceScan: " + r.error_text[:500])
        k = el._last_state_no(r.out)
        bad = recs[k - 2] if k and k >= 2 else recs[-1]
        run.violation("%s on a real %s run under the race detector (n=%s failing=%s)" % (r.violated, bad["kind"], bad["n"], bad["failing"]),
                      dict(kind="race", scenario={k2: bad[k2] for k2 in ("kind", "n", "failing")}, record=bad))
    for rec in recs:
        run.count_case({k2: rec[k2] for k2 in ("kind", "n", "failing")}, rec["failing"] >= 2 or rec["kind"] == "maps")
    run.sample(dict(race_run=lines[3]))


def run_check(prop, tier, replay=None):
    run = vlib.Run(prop, tier, "model_checking")
    run.write_evidence = replay is None
    wd = vlib.scratch_dir(prop)
    try:
        binary = vlib.build_harness(wd)
        errs, drift = [], []
        def g(fn, *a):
            try:
                r = fn(*a)
                if fn is syncmap_phase:
                    drift.append(r)
            except Exception as e:
                errs.append(e)
        ts = [threading.Thread(target=g, args=(syncmap_phase, run, tier, wd, binary)),
              threading.Thread(target=g, args=(scan_model, run, tier, wd)),
              threading.Thread(target=g, args=(race_phase, run, tier, wd)),
              threading.Thread(target=g, args=(regstress_phase, run, tier, wd, binary))]
        for t in ts:
            t.start()
        for t in ts:
            t.join()
        if errs:
            raise errs[0]
        if drift and drift[0]:
            run.cov["model_binding"] = "drift"
            run.cov["drifted_scenarios"] = drift[0]
            vlib.log("DRIFT: %d replayed schedule(s) behave differently from SyncMap.tla although no property failed" % drift[0])
        run.cov["rule"] = ("schedules = all interleavings of start/release actions of <= MaxOps container operations by 2-3 goroutines "
                           "(exported by TLC, replayed with real goroutines); race runs = gated scan / close / stress scenarios under "
                           "the Go race detector; non-trivial = a schedule with a goroutine stopped inside LoadOrStoreFn's callback, or a "
                           "run with >= 2 simultaneous failures")
        run.cov["exhaustive"] = True
        run.cov["explanation"] = "exhaustive = every schedule of the listed SyncMap configurations and every interleaving of the ScanPhase model"
        run.assumptions += [
            "sync.Map itself is linearizable (trusted); single delegations to it cannot be gated, their interleavings come from the stress runs (probabilistic)",
            "the Go race detector is the observation instrument for the scan and close phases; it reports races on the executions it sees",
            "failing scanners / closers are gated on a barrier so that they act at the same moment",
        ]
        return run.finish()
    finally:
        vlib.rm(wd)
