#!/usr/bin/env python3
"""Regenerates /verif/MANIFEST.json from the claims table below (single source of truth for the interface)."""
import json, os
V = "/verif"
props = [json.loads(l) for l in open(V + "/properties.jsonl")]
T_ENGINE = "TLA+ spec (Container.tla) checked with TLC; trace validation of real executions (conformance + monitor)"
T_RES = "TLA+ spec (Resolve.tla) checked with TLC; trace validation of real resolutions (conformance + monitor, cross-run comparison)"
T_APP = "TLA+ spec (App.tla, Ordering.tla) checked with TLC; trace validation of real App.Run/Close executions; TLC-exported cases replayed into the real sort"
CLAIMS = {
 "C01": ("model_checking", "Exhaustive TLC exploration of the creation-engine specification over every resolved dependency graph of the small families (identity of every field, slice element and by-name lookup with the published object as invariants), plus thousands of real App.Run executions per run (complete small families and seeded random/shaped graphs up to 200 nodes, permuted registration and candidate orders, by-name/by-type/qualified edges) whose recorded traces TLC validates against the same specification and property operators at every step.", "5 C01",
         "TLC within N<=3-4 components; Go pointer identity as the observation of 'same object'; hook H2 reads registry tables without side effects; trace events are emitted by wrapping the registries the real factory calls.", T_ENGINE),
 "C02": ("model_checking", "TLC explores every digraph of the small families (all cycles, self loops, slices) for population, absence of self-wiring, absence of re-entrant creation, failure iff a required point is satisfiable only by its holder, and termination (liveness under weak fairness on the small families); real runs of complete small families and of rings / overlapping cycles / dense graphs up to 200 nodes are validated against the specification, with re-entrant creation turned into a recorded event instead of a stack overflow.", "5 C02",
         "Liveness is checked on families with N<=3 (quick) / N<=4 (thorough); beyond that termination is the safety fact C02_NoReentry plus each real run returning.", T_ENGINE),
 "C03": ("model_checking", "TLC explores every graph x every assignment of the six substitution modes at N=2 and one/two substituted nodes at N=3; real runs with a substituting post-processor (labelled wrappers so that object identities in fields and caches are observable) are validated at every step, so a transiently or finally stale holder of a successful start is reported.", "5 C03",
         "Substitution modes are the six modelled ones (none, early, after, both-different, both-same, spring-like); the wrapper type is assignable to the interface-typed points it is injected into.", T_ENGINE),
 "C04": ("model_checking", "The cache protocol is an explicit specification (Cache.tla: three levels, in-creation set, early-reference factory runs, clean failure, arbitrary client) and part of the engine specification; TLC enumerates every call sequence up to a bound and simulates longer ones, each is replayed into the real registry and what the registry did is validated (TraceCache.tla); faults x lazies x post-run lookups are explored exhaustively on small families and validated on real executions with the registry tables snapshotted through hook H2.", "5 C04",
         "Registry tables are read through the build-tagged hook VerifLevels; names and nesting depth are bounded (2 names, 5-6 calls exhaustive, 12-16 simulated; engine N<=3, lookups<=3).", "TLA+ specs (Cache.tla, Container.tla) checked with TLC; TLC-generated call sequences replayed into the real registry; trace validation"),
 "C05": ("model_checking", "Lifecycle phases are the control states of the specification's frames, so conformance of every real trace enforces populate < before < AfterPropertiesSet < Init < after < publish per component; exactly-once, dependencies-first and lazy-iff-needed are invariants / action properties checked exhaustively on graph x lazy-subset families and on every recorded real state.", "5 C05",
         "User post-processor sets are represented by the harness processor (observer/actor) next to the nine built-in processors; sets of ordered user processors are covered by the C12 check.", T_ENGINE),
 "C06": ("model_checking", "TLC explores Resolve.tla over every population of 2-3 providers drawn from the pool's type attributes x every by-type / by-method point kind x every iteration order (soundness, slice completeness, single-valued choice as invariants); thousands of real resolutions (up to 12 providers, 1-3 points, permuted candidate / registration / property orders) are recorded at three stages (after collection, after further matching, final fields) and validated against the same spec.", "5 C06",
         "By-type `any` points are excluded (open population: they collect framework components); the pool's type table must equal TA in Resolve.tla, which conformance checks.", T_RES),
 "C07": ("model_checking", "By-name points (absent, own name, each provider; custom and default names; unassignable types; required/optional; alone or next to other points) are enumerated exhaustively in the model and sampled on the real container; TLC checks on every recorded run that exactly the named component arrives, that a missing or unassignable name fails a required point with an error and never panics, and leaves an optional field untouched.", "5 C07",
         "Duplicate-name rejection at registration is not part of this check's model (RegisterSingleton panics at log level <= panic); names are the ones the framework's own naming helper computes.", T_RES),
 "C08": ("model_checking", "Qualifier sets, Primary and unnamed preference are modelled in the further-matching loop of Resolve.tla including its per-holder iteration (interfering optional points in front of the point under test); exhaustive over small populations, validated on recorded real resolutions with the property order varied by wiring through two processors.", "5 C08",
         "Qualifier strings g1/g2/g9 and at most three points per holder in the exhaustive part.", T_RES),
 "C09": ("model_checking", "Fault modes (each callback of each component, early-reference factory) are scenario parameters explored exhaustively one at a time and in pairs on small families; every real run records whether Run returned an error, returned nil or panicked, and TLC checks that a reachable fault always yields an error and never a panic, with the registry left clean.", "5 C09",
         "Engine-level faults in this check (resolution, callbacks, early factory); unsatisfied required points are decided by the C07/C08 checks' C09_* operators, loader / Init / runner faults by the C13 check's C09_NoRunnerAfterFailure.", T_ENGINE),
 "C10": ("model_checking", "Every source of order (candidate iteration, registration order, singleton name enumeration, property order) is explicit nondeterminism in the spec and the outcome is checked to be a function of the scenario (C10_Status, C10_Point); on the real container every scenario runs under 6 permutations and TLC compares status and every non-tied point across the runs (M_C10_SameOutcome).", "5 C10",
         "Goroutine schedules of the scanning phase are handled by the C20 check; permutations are seeded samples beyond 4 providers.", T_RES),
 "C12": ("model_checking", "The ordering contract is a TLA+ relation (Ordering.tla: Precedes, NextAllowed, IsSortedPerm); TLC proves the stepwise and global formulations agree and exports every participant sequence up to 4-5 participants over 3 classes x 5 Order values (MinInt/MaxInt included), each of which is fed to the real SortOrderedComponents and checked; real App.Run executions with ordered post-processors, runners and loaders log every callback and TLC checks each invocation sequence at all three call sites.", "5 C12",
         "Unordered participants may appear in any relative order (their input order is itself arbitrary); ties inside the sorted groups are free (unstable sort).", T_APP),
 "C13": ("model_checking", "App.tla models Run as a phase machine (loaders, per-component callbacks, runners, return); TLC explores up to 3 runners x classes x Orders x each failing choice x 0-2 components x failing Init x loader; recorded real starts are validated: each runner exactly once, only after every component finished its callbacks, in contract order, none after the first error, error reported iff a fault was hit.", "5 C13",
         "Runner/loader/Init faults are injected by the harness components; one event per callback with global sequence numbers.", T_APP),
 "C14": ("model_checking", "App.tla models Close as fork/join with one process per closer; TLC explores 0-4 closers x all interleavings (waits-for-all, once, isolation via ENABLED, and termination under fairness); real Close calls run with closers held on gates and released in seeded finishing orders; a Close that returns while a closer is held, skips a closer or calls one twice is visible in the sequence-numbered log TLC validates.", "5 C14",
         "Gated closers make the schedule deterministic; bounded waits keep the harness sound for a sequential implementation.", T_APP),
 "C20": ("model_checking", "SyncMap.tla models the containers as implemented (atomic delegations, three-step LoadOrStoreFn); TLC enumerates every schedule of up to 3-5 operations by 2-3 goroutines over 1-2 keys, checks linearizability by brute force and one-winner, and exports the schedules, which are replayed with real goroutines on the real sync2.Map / ConcurrentSets (the LoadOrStoreFn callback is the gate) and validated by TraceSyncMap.tla; ScanPhase.tla decides race freedom of the scan wave by a vector-clock happens-before analysis for 0-4 simultaneously failing scanners, and real starts / shutdowns / container stress run under the Go race detector with the failures gated to coincide.", "5 C20",
         "sync.Map is trusted to be linearizable; interleavings inside single delegations come from stress only (probabilistic); the race detector observes the executions it sees.", "TLA+ specs (SyncMap.tla, ScanPhase.tla) checked with TLC; TLC-generated schedules replayed with real goroutines; race-detector runs validated by TraceScan.tla"),
}
checks = []
for p in props:
    pid = p["id"]
    if pid in CLAIMS:
        lvl, text, ref, note, tech = CLAIMS[pid]
        checks.append(dict(property_id=pid, quick_cmd="python3 check.py %s --tier quick" % pid,
                           thorough_cmd="python3 check.py %s --tier thorough" % pid,
                           evidence_file="/verif/evidence/%s.json" % pid,
                           replay_cmd_template="python3 check.py %s --replay {path}" % pid, engine="tlc+harness",
                           level_claimed=dict(category=lvl, text=text, design_ref=ref), level_note=note, technique=tech))
NA_REASON = {}
na = [dict(property_id=p["id"], reason=NA_REASON.get(p["id"], "check not built yet in this round (in progress; see DESIGN.md 12)"))
      for p in props if p["id"] not in CLAIMS]
m = dict(version=1, setup_cmd="python3 check.py --setup",
         hooks=dict(guard="verif", enable="go build -tags verif (the harness module replaces github.com/go-kid/ioc with /repo)",
                    baseline_off_cmd="cd /repo && GOFLAGS=-mod=mod go test -vet=off -count=1 -timeout 25m ./...",
                    source_commits=["c0a45bc"], add_only=True),
         engines=[dict(name="tlc+harness", path="/verif/check.py", serves_properties=sorted(CLAIMS),
                       kind_free_text="TLC model checking of TLA+ specs under /verif/spec plus trace validation of real go-kid/ioc executions recorded by /verif/harness")],
         checks=checks, not_applicable=na,
         notes="See DESIGN.md. fix: commits in /repo are listed in known_findings.jsonl (kind=fixed).")
json.dump(m, open(V + "/MANIFEST.json", "w"), indent=1)
print("claimed", len(checks), "not_applicable", len(na))
