#!/usr/bin/env python3
"""Merges docs/seeded_matrix.*.part (shards of tools/seeded_matrix.sh; the 'only' shard overrides) into docs/seeded_matrix.md."""
import glob, os, re
rows = {}
parts = sorted(glob.glob("/verif/docs/seeded_matrix.*.part"), key=lambda p: p.endswith("only.part"))
for p in parts:
    for line in open(p):
        m = re.match(r"\| (C\d\d\w*) \| (C\d\d) \| (.*) \|\s*$", line)
        if m:
            rows[m.group(1)] = (m.group(2), m.group(3))
caught = sum(1 for v in rows.values() if v[1].startswith("exit 1"))
with open("/verif/docs/seeded_matrix.md", "w") as f:
    f.write("# Seeded changes vs. the current check of the property they were produced for (tools/seeded_matrix.sh, quick tier)\n\n")
    f.write("%d changes; %d reported as VIOLATION by the check of their own property.  The others are listed in DESIGN.md 13.4 with the check that does catch them "
            "(a change produced for one property sometimes breaks another one's statement).\n\n| seeded | property | verdict |\n|---|---|---|\n" % (len(rows), caught))
    for k in sorted(rows):
        f.write("| %s | %s | %s |\n" % (k, rows[k][0], re.sub(r" replay=\S+", "", rows[k][1])))
print(len(rows), "rows,", caught, "caught by their own property's check")
