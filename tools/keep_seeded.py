#!/usr/bin/env python3
"""keep_seeded.py <id> <property> <caught_by> <strengthened 0|1> <round> <what> -- copies /tmp/mut/out/<id> into /verif/seeded/<id> with meta.json"""
import json, os, shutil, subprocess, sys
sid, prop, caught, strengthened, rnd, what = sys.argv[1:7]
also = sys.argv[7:] 
src, dst = "/tmp/mut/out/" + sid, "/verif/seeded/" + sid
os.makedirs(dst, exist_ok=True)
for f in ("patch.diff", "demo_test.go", "notes.md"):
    shutil.copy(os.path.join(src, f), os.path.join(dst, f))
base = subprocess.run(["git", "-C", "/repo", "rev-parse", "--short", "HEAD"], capture_output=True, text=True).stdout.strip()
json.dump({"breaks": prop, "also": also, "what": what, "needs": "see notes.md", "caught_by": caught,
           "check_strengthened": strengthened == "1", "source": "independent sub-agent (%s round)" % rnd,
           "confirmed": {"cmd": "tools/try_seeded.sh /tmp/mut/out/%s %s <checks>" % (sid, sid), "suite_passes_with_change": True,
                         "demo_fails_with_change": True, "demo_passes_without_change": True},
           "base_commit": base}, open(os.path.join(dst, "meta.json"), "w"), indent=1)
print("kept", dst)
