#!/bin/bash
# usage: try_seeded.sh <outdir with patch.diff + demo_test.go> <seed id> <property ids...>
# 1. confirms in a scratch worktree: suite passes with the change, demo fails with it and passes without it
# 2. applies the change to /repo, runs the given checks (quick tier), and undoes it straight afterwards
set -u
OUT=$1; SID=$2; shift 2
export GOFLAGS=-mod=mod GOPROXY=off GOSUMDB=off GOTOOLCHAIN=local VERIF_NO_EVIDENCE=1
W=/tmp/mut/confirm-$SID
git -C /repo worktree remove --force $W 2>/dev/null; rm -rf $W
git -C /repo worktree add -q --detach $W HEAD || exit 2
cd $W
git apply $OUT/patch.diff || { echo "CONFIRM: patch does not apply"; git -C /repo worktree remove --force $W; exit 2; }
go build ./... || { echo "CONFIRM: does not build"; }
SUITE=$(go test -vet=off -count=1 ./... 2>&1 | grep -v "no test files" | grep -cv "^ok")
echo "CONFIRM suite non-ok lines with change: $SUITE"
mkdir -p unittest/seeded_demo && cp $OUT/demo_test.go unittest/seeded_demo/demo_test.go
go test -vet=off -count=1 ./unittest/seeded_demo/ > /tmp/mut/demo_with_$SID.log 2>&1; echo "CONFIRM demo with change: exit $? (want !=0)"
git apply -R $OUT/patch.diff
go test -vet=off -count=1 ./unittest/seeded_demo/ > /tmp/mut/demo_without_$SID.log 2>&1; echo "CONFIRM demo without change: exit $? (want 0)"
rm -rf unittest/seeded_demo
# run the checks against the tree with the change applied.  With APPLY_TO_REPO=1 the change is applied to /repo itself
# (git -C /repo apply ... / checkout), otherwise the scratch worktree is used through VERIF_REPO so that long-running
# background checks on /repo are not disturbed.
if [ "${APPLY_TO_REPO:-0}" = 1 ]; then
  cd /; git -C /repo worktree remove --force $W
  git -C /repo apply $OUT/patch.diff || exit 2
  TARGET=/repo
else
  git apply $OUT/patch.diff
  TARGET=$W
fi
for p in "$@"; do
  (cd ${VERIF_DIR:-/verif} && VERIF_REPO=$TARGET python3 check.py $p --tier quick > /tmp/mut/check_${SID}_$p.log 2>&1; echo "CHECK $p exit $?: $(egrep '^VIOLATION|^OK|^INFRA|^DRIFT:' /tmp/mut/check_${SID}_$p.log | head -2 | tr '\n' ' ')")
done
if [ "${APPLY_TO_REPO:-0}" = 1 ]; then
  git -C /repo checkout -- .
  git -C /repo status --short | head -3
else
  cd /; git -C /repo worktree remove --force $W
fi
