--------------------------- MODULE MonitorContainer ---------------------------
(***************************************************************************)
(* Monitor layer (DESIGN.md 4.2): the behaviour IS the recorded sequence of *)
(* snapshots of the real container; the next state is assigned from the    *)
(* logged snapshot, counters are derived from event names only.  It cannot *)
(* drift from the code, so the observable forms of the properties are      *)
(* evaluated on every state the real code went through - also on traces    *)
(* that the conformance layer (TraceContainer.tla) rejects, and on graphs  *)
(* far larger than the exhaustive families (sparse snapshots).             *)
(***************************************************************************)
EXTENDS Integers, Sequences, FiniteSets, TLC, Json, SequencesExt

CONSTANTS N, TraceFile
Node == 1..N
Trace == ndJsonDeserialize(TraceFile)
Callbacks == {"resolve", "before", "aps", "init", "after"}

NoV == [n |-> 0, k |-> "none", o |-> "none"]
NoO == [n |-> 0, o |-> "none"]

VARIABLES l, sc, L1, L2, L3, inCr, fS, fL, run, cnt, mpc, orderOK, erCnt, seenRefs, reentered,
          failedEver, created, depsOK, popOK, endOK, faultOK, lazyOK, selfOnlyOK, lookupOK, procOK, firstRun, sameOK, ranM, runOK,
          looked,      \* what by-name lookups from Init() callbacks were handed DURING the start: [t, o]
          pubBefore    \* per node: the components that were published when its latest creation attempt began
vars == <<l, sc, L1, L2, L3, inCr, fS, fL, run, cnt, mpc, orderOK, erCnt, seenRefs, reentered,
          failedEver, created, depsOK, popOK, endOK, faultOK, lazyOK, selfOnlyOK, lookupOK, procOK, firstRun, sameOK, ranM, runOK, looked, pubBefore>>

ScOf(j) == [single   |-> [n \in Node |-> ToSet(j.single[n])],
            selfOpt  |-> [n \in Node |-> j.selfOpt[n]],
            slice    |-> [n \in Node |-> ToSet(j.slice[n])],
            sliceOpt |-> [n \in Node |-> j.sliceOpt[n]],
            lazy     |-> ToSet(j.lazy),
            wrap     |-> [n \in Node |-> j.wrap[n]],
            fail     |-> [n \in Node |-> j.fail[n]],
            procs    |-> [p \in 1..Len(j.procs) |-> j.procs[p]],
            mode     |-> [n \in Node |-> j.mode[n]],
            rorder   |-> [i \in 1..Len(j.rorder) |-> j.rorder[i]],
            late     |-> [n \in Node |-> j.late[n]],
            prewire  |-> [n \in Node |-> ToSet(j.prewire[n])],
            once     |-> [n \in Node |-> j.once[n]],
            ptr      |-> [n \in Node |-> {j.single[n][i] : i \in {k \in 1..Len(j.single[n]) : j.kinds[n][k] # "name-iface"}}],
            ilook    |-> [n \in Node |-> j.ilook[n]],
            sparse   |-> j.sparse]

ZeroCnt == [c \in Callbacks |-> 0]
NoFirst == [set |-> FALSE]
\* C10: what a run leaves behind, as far as it must not depend on any order: the status and, per holder, WHICH COMPONENTS
\* its points received (slice element order is free).  The object VERSION is deliberately not compared: a processor that
\* wraps only when an early reference is requested yields the wrapped or the raw version of the same component depending on
\* which cycle member is reached first - consistently for all holders (C01/C03), and outside "which component it receives".
Outcome(st, ok) == [ok |-> ok,
                    fS |-> IF sc.sparse THEN {[h |-> x.h, t |-> x.t, n |-> x.v.n] : x \in ToSet(st.fS)}
                           ELSE {[h |-> h, t |-> t, n |-> st.fS[h][t].n] : h \in Node, t \in Node},
                    fL |-> IF sc.sparse THEN {[h |-> x.h, n |-> x.v.n] : x \in ToSet(st.fL)}
                           ELSE UNION {{[h |-> h, n |-> st.fL[h][i].n] : i \in 1..Len(st.fL[h])} : h \in Node}]
FreshP(s) ==
  /\ firstRun' = (IF firstRun.set /\ firstRun.sc = s THEN firstRun ELSE NoFirst) /\ sameOK' = sameOK
  /\ ranM' = <<>> /\ runOK' = runOK
  /\ sc' = s
  /\ L1' = [n \in Node |-> NoV] /\ L2' = [n \in Node |-> NoV] /\ L3' = {} /\ inCr' = {}
  /\ fS' = {} /\ fL' = {}
  /\ run' = "running" /\ cnt' = [n \in Node |-> ZeroCnt] /\ mpc' = [n \in Node |-> "idle"]
  /\ orderOK' = TRUE /\ erCnt' = [n \in Node |-> 0] /\ seenRefs' = [n \in Node |-> {}]
  /\ reentered' = FALSE /\ failedEver' = FALSE /\ created' = {} /\ depsOK' = TRUE /\ popOK' = TRUE /\ endOK' = TRUE /\ faultOK' = TRUE /\ lazyOK' = TRUE
  /\ selfOnlyOK' = TRUE /\ lookupOK' = TRUE /\ procOK' = TRUE /\ pubBefore' = [n \in Node |-> {}] /\ looked' = {}
Init ==
  /\ l = 2 /\ sc = ScOf(Trace[1].sc)
  /\ L1 = [n \in Node |-> NoV] /\ L2 = [n \in Node |-> NoV] /\ L3 = {} /\ inCr = {}
  /\ fS = {} /\ fL = {}
  /\ run = "running" /\ cnt = [n \in Node |-> ZeroCnt] /\ mpc = [n \in Node |-> "idle"]
  /\ orderOK = TRUE /\ erCnt = [n \in Node |-> 0] /\ seenRefs = [n \in Node |-> {}]
  /\ reentered = FALSE /\ failedEver = FALSE /\ created = {} /\ depsOK = TRUE /\ popOK = TRUE /\ endOK = TRUE /\ faultOK = TRUE /\ lazyOK = TRUE
  /\ selfOnlyOK = TRUE /\ lookupOK = TRUE /\ procOK = TRUE /\ firstRun = NoFirst /\ sameOK = TRUE /\ ranM = <<>> /\ runOK = TRUE
  /\ pubBefore = [n \in Node |-> {}] /\ looked = {}

E == Trace[l]

\* ---- snapshot -> state.  fS: set of [h,t,v]; fL: set of [h,i,v]  (v = [n,o])
DenseL(st, lv) == [n \in Node |-> st[lv][n]]
SparseL(st, lv) == [n \in Node |-> IF \E i \in 1..Len(st[lv]) : st[lv][i].n = n
                                   THEN st[lv][CHOOSE i \in 1..Len(st[lv]) : st[lv][i].n = n] ELSE NoV]
LoadP(st) ==
  /\ L3' = ToSet(st.L3) /\ inCr' = ToSet(st.inCr)
  /\ IF sc.sparse
     THEN /\ L1' = SparseL(st, "L1") /\ L2' = SparseL(st, "L2")
          /\ fS' = ToSet(st.fS) /\ fL' = ToSet(st.fL)
     ELSE /\ L1' = DenseL(st, "L1") /\ L2' = DenseL(st, "L2")
          /\ fS' = {[h |-> h, t |-> t, v |-> st.fS[h][t]] : h \in Node, t \in Node} \ {[h |-> h, t |-> t, v |-> NoO] : h \in Node, t \in Node}
          /\ fL' = UNION {{[h |-> h, i |-> i, v |-> st.fL[h][i]] : i \in 1..Len(st.fL[h])} : h \in Node}

\* ---- graph helpers over the scenario
\* (an Init() that looks a component up by name - sc.ilook - reaches it like a dependency, when Init is reached at all)
Succ(s, h) == IF s.mode[h] = "shortcut" THEN {}
              ELSE ((s.single[h] \cup s.slice[h]) \ {h}) \cup (IF s.mode[h] = "normal" /\ s.ilook[h] \notin {0, h} THEN {s.ilook[h]} ELSE {})
Reached(md) == CASE md = "normal" -> Callbacks [] md = "beforeNil" -> {"resolve", "before"} [] md = "shortcut" -> {"after"}
RECURSIVE ReachSet(_, _, _)
ReachSet(s, frontier, seenSet) ==
  IF frontier = {} THEN seenSet
  ELSE LET nxt == (UNION {Succ(s, h) : h \in frontier}) \ seenSet
       IN ReachSet(s, nxt, seenSet \cup nxt)
Reach(s, a) == ReachSet(s, {a}, {})
SeqRange(q) == {q[i] : i \in 1..Len(q)}
EagerReach(s) == LET eager == (Node \ s.lazy) \cup SeqRange(s.rorder) IN ReachSet(s, eager, eager)
SelfOnly(s, h) == s.mode[h] # "shortcut" /\ ((h \in s.single[h] /\ ~s.selfOpt[h]) \/ (s.slice[h] = {h} /\ ~s.sliceOpt[h]))
NoSubst(s) == \A n \in Node : s.wrap[n] = "none" /\ s.fail[n] = "none" /\ s.mode[n] = "normal"
FaultReached(s) == \E n \in EagerReach(s) : s.fail[n] \in Reached(s.mode[n])

\* ---- per-node lifecycle automaton driven by event names
NextPc(ev, pc) ==
  CASE ev = "createBegin" -> IF pc = "idle" THEN "begun" ELSE "BAD"
    [] ev = "addFactory"  -> IF pc = "begun" THEN "exposed" ELSE "BAD"
    [] ev = "binst"       -> IF pc = "begun" THEN "shortcut" ELSE "BAD"
    [] ev = "resolve"     -> IF pc = "exposed" THEN "resolved" ELSE "BAD"
    [] ev = "before"      -> IF pc = "resolved" THEN "before" ELSE "BAD"
    [] ev = "aps"         -> IF pc = "before" THEN "aps" ELSE "BAD"
    [] ev = "init"        -> IF pc = "aps" THEN "init" ELSE "BAD"
    [] ev = "after"       -> IF pc \in {"init", "shortcut"} THEN "after" ELSE "BAD"
    [] ev = "createEnd"   -> IF pc # "idle" THEN "idle" ELSE "BAD"
    [] OTHER -> pc

\* checks that concern the step itself (evaluated with the PRE-state, the event and its snapshot)
\* C05: dependencies that do not depend back are fully initialised when Init runs
DepsCheck == E.ev = "init" => \A d \in Succ(sc, E.n) : (E.n \notin Reach(sc, d)) => L1[d] # NoV
\* C05: all of the holder's points are populated before its before-initialization callbacks
\* (the event's own snapshot is taken inside the callback: primed variables)
PopCheck == /\ (E.ev = "before" /\ sc.mode[E.n] # "shortcut") =>
                 /\ \A t \in sc.single[E.n] \ {E.n} : \E f \in fS' : f.h = E.n /\ f.t = t
                 /\ \A t \in sc.slice[E.n] \ {E.n} : \E f \in fL' : f.h = E.n /\ f.v.n = t
            \* ... and so are its configuration values (value / prop / prefix points of the node itself, observed by the
            \* component from inside each of its callbacks: E.cfg = "they hold what this start's configuration prescribes")
            /\ (E.ev \in {"before", "aps", "init", "after"} /\ "cfg" \in DOMAIN E /\ sc.mode[E.n] # "shortcut") => E.cfg
\* C05: a successful creation went through every callback, in order, in this attempt
EndCheck == (E.ev = "createEnd" /\ E.ok) => mpc[E.n] = (IF sc.mode[E.n] = "beforeNil" THEN "before" ELSE "after")
\* C09: a start that returns nil met no injected fault on an eagerly reached component
FaultCheck == (E.ev = "runReturn" /\ E.ok) => (~FaultReached(sc) /\ \A n \in SeqRange(sc.rorder) : sc.fail[n] # "run")
\* C13 / C09 on the engine: a runner runs once, only after everything eager (and what it reaches) is published, never after
\* a failure of any kind, and a successful start ran them all
RunCheck == /\ E.ev = "run" => /\ E.n \in SeqRange(sc.rorder) /\ E.n \notin SeqRange(ranM)
                               /\ \A n \in EagerReach(sc) : L1[n] # NoV
                               /\ ~failedEver /\ run = "running"
                               /\ \A i \in 1..Len(ranM) : sc.fail[ranM[i]] # "run"
            /\ (E.ev = "runReturn" /\ E.ok) => SeqRange(ranM) = SeqRange(sc.rorder)
\* C05: exactly the eager components and what they reach were created
LazyCheck == (E.ev = "runReturn" /\ E.ok /\ ~failedEver) => created = EagerReach(sc)
\* C02: without substitution and faults, start-up fails iff a required point can only be satisfied by its own holder
SelfOnlyCheck == (E.ev = "runReturn" /\ NoSubst(sc) /\ ~E.panic /\ ~reentered /\ (\A n \in Node : sc.fail[n] # "run")) =>
                    ((~E.ok) <=> (\E h \in EagerReach(sc) : SelfOnly(sc, h)))

\* C05: only an eager user post-processor is initialised, once, and before any ordinary component is created
\*      ... and, being a created component itself, it is populated (its wire and value points) and its dependency is
\*      initialised when its own Init runs
ProcCheck == E.ev = "procInit" => (E.n \in 1..Len(sc.procs) /\ ~sc.procs[E.n] /\ created = {} /\ E.populated /\ E.depInited)
Step ==
  /\ l <= Len(Trace) /\ l' = l + 1
  /\ IF E.ev = "scenario" THEN FreshP(ScOf(E.sc))
     ELSE /\ LoadP(E.st)
          /\ UNCHANGED sc
          /\ run' = IF E.ev = "runReturn" THEN (IF E.panic THEN "panic" ELSE IF E.ok THEN "ok" ELSE "err")
                    ELSE IF E.ev = "lookupPanic" THEN "panic" ELSE run
          /\ cnt' = IF E.ev \in Callbacks THEN [cnt EXCEPT ![E.n][E.ev] = @ + 1] ELSE cnt
          /\ mpc' = IF E.n \in Node /\ E.ev \notin {"procInit", "run"} THEN [mpc EXCEPT ![E.n] = NextPc(E.ev, @)] ELSE mpc
          /\ orderOK' = (orderOK /\ ((E.n \in Node /\ E.ev \notin {"procInit", "run"}) => NextPc(E.ev, mpc[E.n]) # "BAD"))
          /\ erCnt' = IF E.ev = "createBegin" THEN [erCnt EXCEPT ![E.n] = 0]
                      ELSE IF E.ev = "get" /\ E.ran /\ ~E.err THEN [erCnt EXCEPT ![E.n] = @ + 1] ELSE erCnt
          /\ seenRefs' = IF E.ev = "createBegin" THEN [seenRefs EXCEPT ![E.n] = {}]
                         ELSE IF E.ev = "get" /\ ~E.err /\ E.res # NoV /\ E.n \in inCr
                              THEN [seenRefs EXCEPT ![E.n] = @ \cup {E.res}] ELSE seenRefs
          /\ reentered' = (reentered \/ E.ev = "reentry")
          \* a start that RETURNS SUCCESS is a successful start whatever failed inside it (a swallowed failure does not excuse
          \* mixed versions or repeated callbacks): only failures after that point (post-run lookups) scope the properties out
          /\ failedEver' = IF E.ev = "runReturn" /\ E.ok THEN FALSE
                           ELSE (failedEver \/ (E.ev = "createEnd" /\ ~E.ok) \/ (E.ev = "get" /\ E.err))
          /\ created' = IF E.ev = "createBegin" THEN created \cup {E.n} ELSE created
          /\ looked' = IF E.ev = "ilooked" THEN looked \cup {[t |-> E.t, o |-> E.res.o]} ELSE looked
          /\ pubBefore' = IF E.ev = "createBegin" THEN [pubBefore EXCEPT ![E.n] = {m \in Node : L1[m] # NoV}] ELSE pubBefore
          /\ procOK' = (procOK /\ ProcCheck)
          /\ ranM' = IF E.ev = "run" THEN Append(ranM, E.n) ELSE ranM
          /\ runOK' = (runOK /\ RunCheck)
          \* C10: every run of one scenario (whatever the registration / candidate / creation-relevant orders) ends alike
          /\ firstRun' = IF E.ev = "runReturn" /\ ~firstRun.set THEN [set |-> TRUE, sc |-> sc, out |-> Outcome(E.st, E.ok)] ELSE firstRun
          /\ sameOK' = (sameOK /\ ((E.ev = "runReturn" /\ firstRun.set /\ firstRun.sc = sc) =>
                                       (firstRun.out.ok = E.ok /\ (E.ok => firstRun.out = Outcome(E.st, E.ok)))))
          /\ depsOK' = (depsOK /\ DepsCheck) /\ popOK' = (popOK /\ PopCheck) /\ endOK' = (endOK /\ EndCheck)
          /\ faultOK' = (faultOK /\ FaultCheck) /\ lazyOK' = (lazyOK /\ LazyCheck) /\ selfOnlyOK' = (selfOnlyOK /\ SelfOnlyCheck)
          \* what GetComponentByName hands to the user is the published object, never a half-built one
          /\ lookupOK' = (lookupOK /\ ((E.ev = "lookupReturn" /\ E.ok) => L1'[E.n].o = E.res.o)
                                   /\ ((E.ev = "lookupAll" /\ E.ok) =>      \* GetComponents: every result is the published object, each component once
                                         (/\ \A i \in 1..Len(E.res) : E.res[i].n \in Node /\ L1'[E.res[i].n].o = E.res[i].o
                                          /\ {E.res[j].n : j \in 1..Len(E.res)} = Node /\ Len(E.res) = N)))
TraceSpec == Init /\ [][Step]_vars
Accepted == IF TLCGet("stats").diameter = Len(Trace) THEN TRUE
            ELSE Print(<<"REJECTED_AFTER_LINE", TLCGet("stats").diameter, "OF", Len(Trace)>>, FALSE)

\* ======================================================== observable-form properties
Started == run = "ok" /\ inCr = {} /\ ~failedEver

M_C01_Identity ==
  Started => /\ \A f \in fS : L1[f.t] # NoV /\ f.v.o = L1[f.t].o /\ f.v.n = f.t
             /\ \A f \in fL : f.v.n \in Node /\ L1[f.v.n] # NoV /\ f.v.o = L1[f.v.n].o
\* C01 / C06: no holder ever ends up with the same component twice in one slice (at any moment, also after a failed attempt
\* was repeated)
\* C01: also what a by-name lookup from a callback was handed DURING the start is the object that ends up published - whenever the
\* target's substitution mode makes early reference and final version one object (none, early, spring-like; with a substitution
\* after initialisation a lookup that hits a component still in creation gets the raw early reference: a lookup is no holder,
\* nothing records it, and the statement of C01 speaks about lookups after the start)
M_C01_LookupsDuringStart ==
  Started => \A x \in looked : sc.wrap[x.t] \in {"none", "early", "spring"} => (L1[x.t] # NoV /\ L1[x.t].o = x.o)
M_C06_SliceOnce == \A f, g \in fL : (f.h = g.h /\ f.v.n = g.v.n) => f.i = g.i
M_C01_PublishedStable ==
  [][E.ev # "scenario" => \A n \in Node : L1[n] # NoV => L1'[n] = L1[n]]_vars
M_C04_NoHalfBuilt == lookupOK   \* also C01: a lookup by name returns the published object
M_C03_NoStale == M_C01_Identity
\* ... also after a creation failed and was retried (post-run lookups; Started is out of scope then): whenever holder and target are
\* both published and nothing is in creation, the holder holds the published version of the target - for every holder that was
\* (re-)created during or after the target's successful attempt.  The other holders - published BEFORE the target's current attempt
\* began, i.e. survivors of an attempt in which the target failed after handing them its early reference - are the recorded
\* finding F16 (they keep the failed attempt's version; nothing consults them when the retry publishes another one).
SameVersion(f, t) == f.v.o = L1[t].o
RetryScope(h, t) == L1[h] # NoV /\ L1[t] # NoV
M_C03_RetryNoStale ==
  (run = "ok" /\ inCr = {}) => /\ \A f \in fS : (RetryScope(f.h, f.t) /\ f.h \notin pubBefore[f.t]) => SameVersion(f, f.t)
                               /\ \A f \in fL : (f.v.n \in Node /\ RetryScope(f.h, f.v.n) /\ f.h \notin pubBefore[f.v.n]) => SameVersion(f, f.v.n)
M_F16_SurvivorSeesFinal ==
  (run = "ok" /\ inCr = {}) => /\ \A f \in fS : (RetryScope(f.h, f.t) /\ f.h \in pubBefore[f.t]) => SameVersion(f, f.t)
                               /\ \A f \in fL : (f.v.n \in Node /\ RetryScope(f.h, f.v.n) /\ f.h \in pubBefore[f.v.n]) => SameVersion(f, f.v.n)
M_C02_NoReentry == ~reentered
M_C02_NoSelfWire == /\ \A f \in fS : ~(f.v.n = f.h /\ f.v.o = "raw")
                    /\ \A f \in fL : ~(f.v.n = f.h /\ f.v.o = "raw")
M_C02_Populated ==
  (Started /\ NoSubst(sc)) =>
     \A h \in Node : L1[h] # NoV =>
        /\ \A t \in sc.single[h] \ {h} : \E f \in fS : f.h = h /\ f.t = t /\ f.v = [n |-> t, o |-> "raw"]
        /\ \A t \in sc.slice[h] \ {h} : \E f \in fL : f.h = h /\ f.v = [n |-> t, o |-> "raw"]
        /\ Cardinality({f \in fL : f.h = h}) = Cardinality(sc.slice[h] \ {h})
M_C04_EarlyOnce == \A n \in Node : erCnt[n] <= 1
M_C04_OneEarlyRef == \A n \in Node : Cardinality(seenRefs[n]) <= 1
M_C04_PublishedClean == \A n \in Node : L1[n] # NoV => (L2[n] = NoV /\ n \notin L3 /\ n \notin inCr)
M_C04_CleanFailure == (run \in {"ok", "err"} /\ \A n \in Node : mpc[n] = "idle") => (inCr = {} /\ L3 = {} /\ \A n \in Node : L2[n] = NoV)
M_C05_Order == orderOK
M_C05_Once == Started => \A n \in Node : /\ L1[n] # NoV => \A c \in Callbacks : cnt[n][c] = (IF c \in Reached(sc.mode[n]) THEN 1 ELSE 0)
                                          /\ n \notin created => \A c2 \in Callbacks : cnt[n][c2] = 0
M_C05_DepsFirst == depsOK
M_C05_PopulatedBeforeInit == popOK
M_C05_AllCallbacks == endOK
M_C05_Lazy == lazyOK
M_C05_Procs == procOK
M_C10_EngineSameOutcome == sameOK
M_C13_Runners == runOK
M_C09_FaultFails == faultOK
M_C02_FailIffSelfOnly == selfOnlyOK
M_C09_NoPanic == run # "panic"
=============================================================================
