--------------------------- MODULE Registry ---------------------------
(***************************************************************************)
(* The singleton registry of go-kid/ioc                                    *)
(* (container/support/singleton_registry.go): components are registered    *)
(* under their name (custom name if they declare one, else the default     *)
(* package/type name).  Registering the SAME object again is a no-op;      *)
(* registering a DIFFERENT object under a taken name is rejected (the      *)
(* registry panics at log levels <= panic) and never replaces the first.   *)
(* TLC enumerates every registration sequence up to MaxOps over a few      *)
(* objects and exports them; the harness replays each on the real          *)
(* registry and TraceRegistry.tla validates every outcome.                 *)
(***************************************************************************)
EXTENDS Integers, Sequences, FiniteSets, TLC, Json

CONSTANTS Objects,   \* object identities
          NameOf,    \* [Objects -> name]: several objects may share a name
          MaxOps
None == 0
Names == {NameOf[o] : o \in Objects}
VARIABLES reg, hist
vars == <<reg, hist>>
Init == reg = [n \in Names |-> None] /\ hist = <<>>
\* RegisterSingleton(o)
Register(o) ==
  /\ Len(hist) < MaxOps
  /\ LET n == NameOf[o] IN
     IF reg[n] = None THEN reg' = [reg EXCEPT ![n] = o] /\ hist' = Append(hist, [op |-> "register", o |-> o, res |-> "stored"])
     ELSE IF reg[n] = o THEN UNCHANGED reg /\ hist' = Append(hist, [op |-> "register", o |-> o, res |-> "same"])
     ELSE UNCHANGED reg /\ hist' = Append(hist, [op |-> "register", o |-> o, res |-> "rejected"])
\* GetSingleton(name) / ContainsSingleton(name)
Get(n) ==
  /\ Len(hist) < MaxOps
  /\ hist' = Append(hist, [op |-> "get", o |-> reg[n], res |-> IF reg[n] = None THEN "missing" ELSE "found", n |-> n])
  /\ UNCHANGED reg
Next == (\E o \in Objects : Register(o)) \/ (\E n \in Names : Get(n))
Spec == Init /\ [][Next]_vars
\* C07: never two distinct components under one name; the first registration is never displaced
C07_OnePerName == \A n \in Names : reg[n] # None => NameOf[reg[n]] = n
C07_FirstWins == [][\A n \in Names : reg[n] # None => reg'[n] = reg[n]]_vars
Export == Len(hist) = MaxOps => PrintT(<<"REGHIST", ToJson(hist)>>)
=============================================================================
