--------------------------- MODULE SyncMap ---------------------------
(***************************************************************************)
(* The concurrent containers of go-kid/ioc AS IMPLEMENTED                  *)
(* (util/sync2/map.go, util/list/concurrent_set.go): every operation is a  *)
(* single atomic delegation to sync.Map, except                            *)
(*   LoadOrStoreFn(k, f) = Load(k); if absent { v := f(); Store(k, v) }    *)
(* which is three steps (Repaired = TRUE: the last step is LoadOrStore).   *)
(* A schedule is a sequence of "start" (a goroutine starts its next        *)
(* operation; atomic ones complete at once, LoadOrStoreFn may stop inside  *)
(* the caller-supplied f) and "release" (f returns) actions.  TLC          *)
(* enumerates all schedules up to MaxOps operations, checks that every     *)
(* complete history is linearizable w.r.t. the sequential map / set, and   *)
(* exports the schedules; the harness replays them on the real containers  *)
(* with real goroutines (f blocks on a gate).                              *)
(*                                                                         *)
(* The component-definition registry (container/support/                   *)
(* component_definition_registry.go) is the same kind of object and is     *)
(* what the goroutines of the parallel scanning phase share: RGetOrReg =   *)
(* GetMetaOrRegister (LoadOrStoreFn whose f builds the definition and      *)
(* calls the component's Naming() - the gate), RReg = RegisterMeta         *)
(* (Store), RByName = GetMetaByName (Load), RMetas = GetMetas (every       *)
(* registered definition, in name order).                                  *)
(***************************************************************************)
EXTENDS Integers, Sequences, FiniteSets, TLC, Json, SequencesExt

CONSTANTS G, Keys, OpKinds, MaxOps, Repaired
None == 0
Idle == [op |-> "idle"]

VARIABLES m,     \* the map: Keys -> value or None
          s,     \* the set: Keys -> BOOLEAN
          cur,   \* per goroutine: Idle or the LoadOrStoreFn that is inside f
          acts,  \* the schedule so far
          ops    \* completed operations: [g, op, k, v, st, en, rv, rok]
vars == <<m, s, cur, acts, ops>>

Init == m = [k \in Keys |-> None] /\ s = [k \in Keys |-> FALSE] /\ cur = [g \in G |-> Idle] /\ acts = <<>> /\ ops = <<>>

Started == Len(SelectSeq(acts, LAMBDA a : a.a = "start"))
Clock == Len(acts) + 1          \* index of the action being taken; doubles as a unique value

FnKinds == {"LoadOrStoreFn", "RGetOrReg"}     \* operations that run a caller-supplied function when the key is absent
\* what GetMetas returns: the value under every present key, in key order
Present(mm) == LET ks == SetToSortSeq({k \in Keys : mm[k] # None}, <) IN [i \in 1..Len(ks) |-> mm[ks[i]]]
\* sequential semantics: result and new state of operation o applied to <<mm, ss>>
SeqSem(o, mm, ss) ==
  CASE o.op \in {"Load", "RByName"} -> [rv |-> mm[o.k], rok |-> mm[o.k] # None, m |-> mm, s |-> ss]
    [] o.op \in {"Store", "RReg"}  -> [rv |-> None, rok |-> TRUE, m |-> [mm EXCEPT ![o.k] = o.v], s |-> ss]
    [] o.op = "RMetas" -> [rv |-> Present(mm), rok |-> TRUE, m |-> mm, s |-> ss]
    [] o.op = "Delete" -> [rv |-> None, rok |-> TRUE, m |-> [mm EXCEPT ![o.k] = None], s |-> ss]
    [] o.op \in {"LoadOrStore", "LoadOrStoreFn", "RGetOrReg"} ->
         IF mm[o.k] # None THEN [rv |-> mm[o.k], rok |-> TRUE, m |-> mm, s |-> ss]
         ELSE [rv |-> o.v, rok |-> FALSE, m |-> [mm EXCEPT ![o.k] = o.v], s |-> ss]
    [] o.op = "Put"    -> [rv |-> None, rok |-> TRUE, m |-> mm, s |-> [ss EXCEPT ![o.k] = TRUE]]
    [] o.op = "Remove" -> [rv |-> None, rok |-> TRUE, m |-> mm, s |-> [ss EXCEPT ![o.k] = FALSE]]
    [] o.op = "Exists" -> [rv |-> None, rok |-> ss[o.k], m |-> mm, s |-> ss]

\* a goroutine starts an operation
Start(g, kind, k) ==
  /\ cur[g] = Idle /\ Started < MaxOps
  /\ LET o == [g |-> g, op |-> kind, k |-> k, v |-> Clock]
         act == [a |-> "start", g |-> g, op |-> kind, k |-> k, v |-> Clock] IN
     /\ acts' = Append(acts, act)
     /\ IF kind \in FnKinds /\ m[k] = None
        THEN \* Load found nothing: the goroutine is now inside f
             /\ cur' = [cur EXCEPT ![g] = o @@ [st |-> Clock]]
             /\ UNCHANGED <<m, s, ops>>
        ELSE LET r == SeqSem(o, m, s) IN
             /\ m' = r.m /\ s' = r.s
             /\ ops' = Append(ops, o @@ [st |-> Clock, en |-> Clock, rv |-> r.rv, rok |-> r.rok])
             /\ UNCHANGED cur
\* f returns and the goroutine finishes LoadOrStoreFn
Release(g) ==
  /\ cur[g] # Idle
  /\ LET o == cur[g] IN
     /\ acts' = Append(acts, [a |-> "release", g |-> g, op |-> o.op, k |-> o.k, v |-> o.v])
     /\ cur' = [cur EXCEPT ![g] = Idle]
     /\ IF Repaired /\ m[o.k] # None
        THEN /\ ops' = Append(ops, [g |-> g, op |-> o.op, k |-> o.k, v |-> o.v, st |-> o.st, en |-> Clock, rv |-> m[o.k], rok |-> TRUE])
             /\ UNCHANGED m
        ELSE /\ m' = [m EXCEPT ![o.k] = o.v]          \* pinned code: an unconditional Store
             /\ ops' = Append(ops, [g |-> g, op |-> o.op, k |-> o.k, v |-> o.v, st |-> o.st, en |-> Clock, rv |-> o.v, rok |-> FALSE])
     /\ UNCHANGED s
Next == \/ \E g \in G, kind \in OpKinds, k \in Keys : Start(g, kind, k)
        \/ \E g \in G : Release(g)
Spec == Init /\ [][Next]_vars

\* ------------------------------------------------------------------ linearizability (brute force)
Complete == Started = MaxOps /\ \A g \in G : cur[g] = Idle
Perms(n) == {p \in [1..n -> 1..n] : \A i, j \in 1..n : i # j => p[i] # p[j]}
RECURSIVE Replay(_, _, _, _, _)
Replay(h, p, i, mm, ss) ==      \* do the operations of h, in the order p, give the recorded results?
  IF i > Len(h) THEN TRUE
  ELSE LET o == h[p[i]]  r == SeqSem(o, mm, ss) IN
       r.rv = o.rv /\ r.rok = o.rok /\ Replay(h, p, i + 1, r.m, r.s)
Linearizable(h) ==
  \E p \in Perms(Len(h)) :
     /\ \A i, j \in 1..Len(h) : (h[p[i]].en < h[p[j]].st) => i < j      \* real-time order is respected
     /\ Replay(h, p, 1, [k \in Keys |-> None], [k \in Keys |-> FALSE])
C20_Linearizable == Complete => Linearizable(ops)
\* two completed load-or-stores on one key with no delete in between never both report "stored"
C20_OneWinner ==
  \A i, j \in 1..Len(ops) :
     (i < j /\ ops[i].op \in {"LoadOrStore"} \cup FnKinds /\ ops[j].op \in {"LoadOrStore"} \cup FnKinds
        /\ ops[i].k = ops[j].k /\ ~ops[i].rok /\ ~ops[j].rok)
     => \E d \in 1..Len(ops) : ops[d].op = "Delete" /\ ops[d].k = ops[i].k
Export == Complete => PrintT(<<"SCHED", ToJson(acts)>>)
=============================================================================
