--------------------------- MODULE TraceValuePipe ---------------------------
(***************************************************************************)
(* Real bindings judged by ValuePipe.tla.                                  *)
(*  twin     : P = bound by prefix, V = by placeholder, Q = by the prop    *)
(*             shorthand, L = literal in the tag.  Where the prefix path   *)
(*             succeeds and the model says the text round trip is the      *)
(*             identity for that class and field type, V must equal P.     *)
(*             prop is value, always.                                      *)
(*  expr     : the bound value of value:"#{...}" equals Eval of the tree   *)
(*             (the expected value is part of the TLC-exported case).      *)
(*  validate : start-up fails exactly when a constraint is violated.       *)
(***************************************************************************)
EXTENDS ValuePipe, Json, SequencesExt
CONSTANT TraceFile
Trace == ndJsonDeserialize(TraceFile)
VARIABLES l, ok
E == Trace[l]
Same(a, b) == a.ok = b.ok /\ (a.ok => a.val = b.val)
TwinOK(e) == (e.P.ok /\ ~Alters(e.class, e.ftype)) => (e.V.ok /\ e.V.val = e.P.val)
LiteralOK(e) == (e.L.val # "-" /\ e.P.ok /\ ~Alters(e.class, e.ftype)) => (e.L.ok /\ e.L.val = e.P.val)
PropOK(e) == Same(e.Q, e.V)
PrefixExactOK(e) == ExactCell(e.class, e.ftype) => (e.P.ok /\ e.P.json = e.cfg)
NoPanic(e) == ~e.P.panic /\ ~e.V.panic /\ ~e.Q.panic /\ ~e.L.panic
ConsOf(j) == [i \in 1..Len(j) |-> [k |-> j[i].k, n |-> j[i].n]]
\* the configured value arrives as text; the harness logs it as decimal digits
ToInt(sx) == CHOOSE n \in 0..64 : ToString(n) = sx
\* C09: missing configuration values; C18: struct validation (a member constraint decides)
MissingOK(e) == IF MissingOutcome(e.required) = "err" THEN (~e.ok /\ ~e.panic) ELSE (e.ok /\ e.zero)
TraceInit == l = 1 /\ ok = [twin |-> TRUE, lit |-> TRUE, prop |-> TRUE, expr |-> TRUE, valid |-> TRUE, nopanic |-> TRUE, exact |-> TRUE]
MStep == /\ l <= Len(Trace) /\ l' = l + 1
         /\ ok' = CASE E.kind = "twin" -> [twin |-> TwinOK(E), lit |-> LiteralOK(E), prop |-> PropOK(E), expr |-> TRUE, valid |-> TRUE, nopanic |-> NoPanic(E), exact |-> PrefixExactOK(E)]
                    [] E.kind = "expr" -> [twin |-> TRUE, lit |-> TRUE, prop |-> TRUE, expr |-> (E.got = E.want), valid |-> TRUE, nopanic |-> ~E.panic, exact |-> TRUE]
                    [] E.kind = "missing" -> [twin |-> TRUE, lit |-> TRUE, prop |-> TRUE, expr |-> TRUE, nopanic |-> ~E.panic, valid |-> MissingOK(E), exact |-> TRUE]
                    [] E.kind = "vstruct" -> [twin |-> TRUE, lit |-> TRUE, prop |-> TRUE, expr |-> TRUE, nopanic |-> ~E.panic, exact |-> TRUE,
                                              valid |-> (E.ok <=> ~ValidationFails(ToInt(E.x), ConsOf(E.cons)))]
                    \* C17: a bound value is the field's own: a write through one component's bound map / list changes neither what a
                    \* later component receives for the same key (by prefix, by placeholder) nor the configuration itself
                    [] E.kind = "alias" -> [twin |-> TRUE, lit |-> TRUE, prop |-> TRUE, expr |-> TRUE, nopanic |-> ~E.panic, valid |-> TRUE,
                                            exact |-> (E.ok /\ E.bp = E.want /\ E.bv = E.want /\ E.get = E.want)]
                    [] E.kind = "vnest" -> [twin |-> TRUE, lit |-> TRUE, prop |-> TRUE, expr |-> TRUE, nopanic |-> ~E.panic, exact |-> TRUE,
                                            valid |-> (E.ok <=> ~NestedRequiredFails(E.ptr, E.nx))]
                    [] E.kind = "vslice" -> [twin |-> TRUE, lit |-> TRUE, prop |-> TRUE, expr |-> TRUE, nopanic |-> ~E.panic, exact |-> TRUE,
                                             valid |-> (E.ok <=> ~ListValidationFails(E.xs, ConsOf(E.cons)))]
                    [] E.kind = "validate" -> [twin |-> TRUE, lit |-> TRUE, prop |-> TRUE, expr |-> TRUE, nopanic |-> ~E.panic, exact |-> TRUE,
                                               valid |-> (E.ok <=> ~ValidationFails(ToInt(E.x), ConsOf(E.cons))) /\ (E.ok => E.bound = E.x)]
MonitorSpec == TraceInit /\ [][MStep]_<<l, ok>>
C17_TwinHolds == ok.twin
C17_LiteralAsWritten == ok.lit
C17_PropIsValue == ok.prop
C17_PrefixExact == ok.exact
C18_ExprResult == ok.expr
C18_ValidateIff == ok.valid
C09_NoPanic == ok.nopanic
C09_MissingConfig == ok.valid
Accepted == IF TLCGet("stats").diameter = Len(Trace) + 1 THEN TRUE
            ELSE Print(<<"REJECTED_AFTER_LINE", TLCGet("stats").diameter - 1, "OF", Len(Trace)>>, FALSE)
=============================================================================
