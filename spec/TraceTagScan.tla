--------------------------- MODULE TraceTagScan ---------------------------
(***************************************************************************)
(* One line per real start: the struct shape (built with reflect.StructOf  *)
(* / compile-time blocks), every leaf's value after Run and what the       *)
(* user-supplied tag processor received.  The expectations are Scan.tla's: *)
(* a value / prop leaf holds its configured value iff it belongs to the    *)
(* component (Own), the custom processor received exactly the cust fields  *)
(* that belong to it with their value and argument, and everything else is *)
(* unchanged.                                                              *)
(***************************************************************************)
EXTENDS Scan, Json, SequencesExt
CONSTANT TraceFile
Trace == ndJsonDeserialize(TraceFile)
VARIABLES l, ok
E == Trace[l]
RECURSIVE NodeOf(_)
NodeOf(j) == [k |-> j.k, tag |-> j.tag, anon |-> j.anon, ptr |-> j.ptr, exp |-> j.exp, id |-> j.id,
              kids |-> [i \in 1..Len(j.kids) |-> NodeOf(j.kids[i])]]
ShapeOf(j) == [i \in 1..Len(j) |-> NodeOf(j[i])]
Name(p, i) == p \o ToString(i)
Binding == {"value", "prop", "prefix", "wire", "func", "logger"}
Bound(e) == {c.id : c \in {x \in Own(ShapeOf(e.shape), TRUE) : x.tag \in Binding}}
TagOfId(e, id) == LET own == {x \in Own(ShapeOf(e.shape), TRUE) : x.id = id} IN (CHOOSE x \in own : TRUE).tag
\* what a processed leaf holds: its configured value for configuration tags, some component / logger otherwise
Want(e, id) == IF TagOfId(e, id) \in {"value", "prop", "prefix"} THEN Name("v", id) ELSE "set"
Cust(e) == {c.id : c \in {x \in Own(ShapeOf(e.shape), TRUE) : x.tag = "cust"}}
\* C11 exactly + flatten: bound leaves hold their configured value
BoundOK(e) == \A i \in 1..Len(e.leaves) : LET lf == e.leaves[i] IN
                 lf.id \in Bound(e) => lf.val = Want(e, lf.id)
\* C11 frame: every other leaf keeps its initial value (unexported, untagged, foreign-tagged, hidden behind
\* a named / tagged / pointer struct field)
FrameOK(e) == \A i \in 1..Len(e.leaves) : LET lf == e.leaves[i] IN
                 lf.id \notin Bound(e) => lf.val = lf.init
\* C11: the user-supplied processor received exactly the fields carrying its tag, with value and argument, once each
CustOK(e) == /\ {e.cust[i].id : i \in 1..Len(e.cust)} = Cust(e)
             /\ Len(e.cust) = Cardinality(Cust(e))
             /\ \A i \in 1..Len(e.cust) : e.cust[i].val = Name("c", e.cust[i].id) /\ e.cust[i].arg = Name("a", e.cust[i].id)
\* the same through the flattening of the shape
FlattenOK(e) == Own(Flatten(ShapeOf(e.shape)), TRUE) = Own(ShapeOf(e.shape), TRUE)
\* (the state machine's own variables are not used here: the expectations are its constant-level operators)
TraceInit == l = 1 /\ ok = [bound |-> TRUE, frame |-> TRUE, cust |-> TRUE, flat |-> TRUE, run |-> TRUE] /\ InitWith(<<>>)
MStep == /\ l <= Len(Trace) /\ l' = l + 1
         /\ ok' = [bound |-> BoundOK(E), frame |-> FrameOK(E), cust |-> CustOK(E), flat |-> FlattenOK(E), run |-> E.ok]
         /\ UNCHANGED vars
MonitorSpec == TraceInit /\ [][MStep]_<<vars, l, ok>>
Accepted == IF TLCGet("stats").diameter = Len(Trace) + 1 THEN TRUE
            ELSE Print(<<"REJECTED_AFTER_LINE", TLCGet("stats").diameter - 1, "OF", Len(Trace)>>, FALSE)
C11_Exactly_Bound == ok.bound
C11_Frame_Untouched == ok.frame
C11_Exactly_Custom == ok.cust
C11_Flatten_Same == ok.flat
C11_RunOk == ok.run
=============================================================================
