--------------------------- MODULE MCEngR ---------------------------
(* Family R: application runners inside the engine.  Every single-edge graph x every lazy subset x every sequence of    *)
(* distinct runner nodes (the candidate order in which the App's runner slice pulls them in) x at most one fault        *)
(* (a callback of some node, or a failing Run).                                                                          *)
EXTENDS Container
AllFalse == [n \in Node |-> FALSE]
NoWrap == [n \in Node |-> "none"]
Empty == [n \in Node |-> {}]
Distinct(q) == \A i, j \in 1..Len(q) : i # j => q[i] # q[j]
ROrders == {q \in UNION {[1..k -> Node] : k \in 0..N} : Distinct(q)}
OneFault(ro) == {f \in [Node -> {"none", "init", "after", "run"}] :
                   /\ Cardinality({n \in Node : f[n] # "none"}) <= 1
                   /\ \A n \in Node : f[n] = "run" => n \in {ro[i] : i \in 1..Len(ro)}}
Fam == UNION {{[single |-> g, selfOpt |-> AllFalse, slice |-> Empty, sliceOpt |-> AllFalse, lazy |-> lz, wrap |-> NoWrap, fail |-> fl,
                procs |-> <<>>, mode |-> [n \in Node |-> "normal"], rorder |-> ro, ilook |-> NoLook] :
                  g \in [Node -> SUBSET Node], lz \in SUBSET Node, fl \in OneFault(ro)} : ro \in ROrders}
=============================================================================
