--------------------------- MODULE TraceTag ---------------------------
(* Each line: a tag (token sequence) and what the REAL component_definition.NewProperty made of it (value,     *)
(* argument map, IsRequired, whether it panicked).  Faithful for well-formed tags, total for all.              *)
EXTENDS TagGrammar, Json, SequencesExt
CONSTANT TraceFile
Trace == ndJsonDeserialize(TraceFile)
VARIABLES l, total, faithful
E == Trace[l]
ObsArgs(e) == {[name |-> e.args[i].name, vals |-> e.args[i].vals] : i \in 1..Len(e.args)}
TraceInit == l = 1 /\ total = TRUE /\ faithful = TRUE
MStep == /\ l <= Len(Trace) /\ l' = l + 1
         /\ total' = ~E.panic
         /\ faithful' = (WellFormed(E.tag) => (/\ ~E.panic /\ Value(E.tag) = E.value /\ Args(E.tag) = ObsArgs(E) /\ IsRequired(E.tag) = E.required
                                               \* the same tag on a struct field, through a real tag scanner whose Required default is unset / set
                                               /\ ("scanUnset" \in DOMAIN E) => (E.scanUnset = (IF IsRequired(E.tag) THEN 1 ELSE 0) /\ E.scanSet = E.scanUnset)))
MonitorSpec == TraceInit /\ [][MStep]_<<l, total, faithful>>
C19_Total == total
C19_Faithful == faithful
Accepted == IF TLCGet("stats").diameter = Len(Trace) + 1 THEN TRUE
            ELSE Print(<<"REJECTED_AFTER_LINE", TLCGet("stats").diameter - 1, "OF", Len(Trace)>>, FALSE)
=============================================================================
