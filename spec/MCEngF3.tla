--------------------------- MODULE MCEngF3 ---------------------------
(* Family F3: single-edge graphs without self loops x one or two faulty nodes x every lazy subset. *)
(* One family per module: TLC evaluates constant definitions when a module is loaded.          *)
EXTENDS Container

AllFalse == [n \in Node |-> FALSE]
AllTrue == [n \in Node |-> TRUE]
NoWrap == [n \in Node |-> "none"]
NoFail == [n \in Node |-> "none"]
Empty == [n \in Node |-> {}]
Disj == {p \in (SUBSET Node) \X (SUBSET Node) : p[1] \cap p[2] = {}}
NoSelfGraphs == {x \in [Node -> SUBSET Node] : \A n \in Node : n \notin x[n]}
FewFaults == {f \in [Node -> FailMode] : Cardinality({n \in Node : f[n] # "none"}) \in {1, 2}}
Fam == {[single |-> g, selfOpt |-> AllFalse, slice |-> Empty, sliceOpt |-> AllFalse, lazy |-> lz, wrap |-> NoWrap, fail |-> fl, procs |-> <<>>, mode |-> [n \in Node |-> "normal"], rorder |-> <<>>, ilook |-> NoLook] :
          g \in NoSelfGraphs, lz \in SUBSET Node, fl \in FewFaults}
=============================================================================
