--------------------------- MODULE TraceCache ---------------------------
(***************************************************************************)
(* Validation of what the REAL registry did when the harness replayed      *)
(* TLC-generated call sequences of Cache.tla into it (harness/cache.go).   *)
(* Each line: the call, its ACTUAL result, and a snapshot of the four      *)
(* tables read through hook H2.  "hist" lines start a new history.         *)
(*   TraceSpec   : conformance - every call is a step of Cache.tla with    *)
(*                 the same result and the same next tables.               *)
(*   MonitorSpec : the tables are assigned from the snapshots; the C04     *)
(*                 invariants are evaluated on the real states, so they    *)
(*                 are decided even where the code has drifted.            *)
(***************************************************************************)
EXTENDS Cache, SequencesExt

CONSTANT TraceFile
Trace == ndJsonDeserialize(TraceFile)
VARIABLE l
E == Trace[l]
IsEv(name) == l <= Len(Trace) /\ E.op = name /\ l' = l + 1

Tab(st) == /\ L1' = [n \in Names |-> st.L1[n]] /\ L2' = [n \in Names |-> st.L2[n]]
           /\ L3' = [n \in Names |-> n \in ToSet(st.L3)] /\ inCr' = ToSet(st.inCr)

TGet == /\ IsEv("get")
        /\ LET r == GetResult(E.n, E.early, E.fok) IN E.res = r.res /\ E.err = r.err
        /\ Get(E.n, E.early, E.fok)
TIsInCr == IsEv("isInCr") /\ E.res = (E.n \in inCr) /\ IsInCr(E.n)
TCreateBegin == IsEv("createBegin") /\ CreateBegin(E.n)
TCreateHit == IsEv("createHit") /\ E.res = L1[E.n] /\ CreateHit(E.n)
TAddFactory == IsEv("addFactory") /\ open # <<>> /\ open[Len(open)] = E.n /\ AddFactory
TCreateEnd == /\ IsEv("createEnd") /\ open # <<>> /\ open[Len(open)] = E.n
              /\ E.err = ~E.ok      \* the creation call reported exactly the factory's outcome
              /\ E.ok => E.res = Val(E.n, "final", attempt[E.n])
              /\ CreateEnd(E.ok)
TRemove == IsEv("remove") /\ Remove(E.n)
ResetP == /\ L1' = [n \in Names |-> None] /\ L2' = [n \in Names |-> None] /\ L3' = [n \in Names |-> FALSE]
          /\ inCr' = {} /\ open' = <<>> /\ runs' = [n \in Names |-> 0] /\ attempt' = [n \in Names |-> 0]
          /\ refs' = [n \in Names |-> {}] /\ hist' = <<>>
TReset == IsEv("hist") /\ ResetP

TraceInit == l = 2 /\ Init
TraceNext == /\ \/ TGet \/ TIsInCr \/ TCreateBegin \/ TCreateHit \/ TAddFactory \/ TCreateEnd \/ TRemove \/ TReset
             /\ E.op # "hist" => Tab(E.st)
TraceSpec == TraceInit /\ [][TraceNext]_<<vars, l>>

\* ---- monitor: tables from snapshots, bookkeeping from event names
MStep ==
  /\ l <= Len(Trace) /\ l' = l + 1
  /\ IF E.op = "hist" THEN ResetP
     ELSE /\ Tab(E.st)
          /\ open' = IF E.op = "createBegin" THEN Append(open, E.n)
                     ELSE IF E.op = "createEnd" THEN SubSeq(open, 1, Len(open) - 1) ELSE open
          /\ attempt' = IF E.op = "createBegin" THEN [attempt EXCEPT ![E.n] = @ + 1] ELSE attempt
          \* an early reference was obtained: the call found nothing in L1/L2 and returned something
          /\ runs' = IF E.op = "createBegin" THEN [runs EXCEPT ![E.n] = 0]
                     ELSE IF E.op = "get" /\ ~E.err /\ E.res # None /\ L1[E.n] = None /\ L2[E.n] = None
                          THEN [runs EXCEPT ![E.n] = @ + 1] ELSE runs
          /\ refs' = IF E.op = "createBegin" THEN [refs EXCEPT ![E.n] = {}]
                     ELSE IF E.op = "get" /\ InOpen(E.n) /\ E.res # None THEN [refs EXCEPT ![E.n] = @ \cup {E.res}] ELSE refs
          /\ hist' = Append(hist, [op |-> E.op])
MonitorSpec == TraceInit /\ [][MStep]_<<vars, l>>
\* a lookup outside any creation of the name returns only published instances
M_NoHalfBuilt ==
  [][(E.op = "get" /\ ~InOpen(E.n) /\ E.res # None) => E.res = L1[E.n]]_<<vars, l>>
\* a lookup whose early-reference factory FAILED obtained nothing and changes nothing: the factory stays, so that the one early
\* reference of this creation can still be produced for the next lookup (otherwise later lookups see "nothing there" for a name
\* that is in creation, and the factory starts a second, nested creation of the singleton)
M_FailedLookupChangesNothing ==
  [][(E.op = "get" /\ E.err) => (L1' = L1 /\ L2' = L2 /\ L3' = L3 /\ inCr' = inCr)]_<<vars, l>>
M_PublishedStable ==
  [][\A n \in Names : (L1[n] # None /\ E.op \notin {"remove", "hist"}) => L1'[n] = L1[n]]_<<vars, l>>

Accepted == IF TLCGet("stats").diameter = Len(Trace) THEN TRUE
            ELSE Print(<<"REJECTED_AFTER_LINE", TLCGet("stats").diameter, "OF", Len(Trace)>>, FALSE)
=============================================================================
