--------------------------- MODULE TraceScan ---------------------------
(***************************************************************************)
(* Observations of the real concurrent phases under the Go race detector   *)
(* (harness built with -race, one process per scenario): scanners gated so *)
(* that the failing ones append their errors at the same moment, closers   *)
(* failing at the same moment, and stress histories on the concurrent      *)
(* containers.  ScanPhase.tla says for which scenarios a race-free         *)
(* implementation reports nothing: all of them once the append is guarded. *)
(***************************************************************************)
EXTENDS Integers, Sequences, TLC, Json
CONSTANT TraceFile
Trace == ndJsonDeserialize(TraceFile)
VARIABLES l, races, lost, wrong
E == Trace[l]
TraceInit == l = 1 /\ races = 0 /\ lost = 0 /\ wrong = 0
MStep == /\ l <= Len(Trace) /\ l' = l + 1
         /\ races' = races + (IF E.race THEN 1 ELSE 0)
         \* every failing scanner's error is reported (no lost append)
         /\ lost' = lost + (IF E.kind = "scan" /\ E.kept # E.failing THEN 1 ELSE 0)
         \* Run fails iff some scanner failed; Close returns with every closer ended
         \* ... and the stress runs on the concurrent containers: a goroutine's calls on a key that only it touches are answered as if
         \* they ran alone, whatever the others do to the shared keys (no sequential witness exists otherwise)
         /\ wrong' = wrong + (IF (E.kind = "scan" /\ E.ok # (E.failing = 0)) \/ (E.kind = "close" /\ ~E.ok)
                                  \/ (E.kind = "maps" /\ E.incoherent # 0) \/ E.hung THEN 1 ELSE 0)
MonitorSpec == TraceInit /\ [][MStep]_<<l, races, lost, wrong>>
C20_RaceFree == races = 0
C20_AllErrorsKept == lost = 0
C20_Outcome == wrong = 0
Accepted == IF TLCGet("stats").diameter = Len(Trace) + 1 THEN TRUE
            ELSE Print(<<"REJECTED_AFTER_LINE", TLCGet("stats").diameter - 1, "OF", Len(Trace)>>, FALSE)
=============================================================================
