--------------------------- MODULE TraceContainer ---------------------------
(***************************************************************************)
(* Conformance: a trace recorded from the REAL container (harness/engine.go *)
(* built from /repo with -tags verif) must be a behaviour of Container.tla. *)
(* One trace action per event; the logged results and the logged snapshot  *)
(* of the abstract state are bound; unlogged variables (stack, deps,       *)
(* counters) are inferred by the original action.  The property operators  *)
(* of Container.tla are evaluated on every state the real code went        *)
(* through.  A file holds many scenarios; "scenario" lines reset the state.*)
(***************************************************************************)
EXTENDS Container, Json, SequencesExt

CONSTANT TraceFile
Trace == ndJsonDeserialize(TraceFile)
VARIABLE l

ScOf(j) == [single   |-> [n \in Node |-> ToSet(j.single[n])],
            selfOpt  |-> [n \in Node |-> j.selfOpt[n]],
            slice    |-> [n \in Node |-> ToSet(j.slice[n])],
            sliceOpt |-> [n \in Node |-> j.sliceOpt[n]],
            lazy     |-> ToSet(j.lazy),
            wrap     |-> [n \in Node |-> j.wrap[n]],
            fail     |-> [n \in Node |-> j.fail[n]],
            procs    |-> [p \in 1..Len(j.procs) |-> j.procs[p]],
            mode     |-> [n \in Node |-> j.mode[n]],
            rorder   |-> [i \in 1..Len(j.rorder) |-> j.rorder[i]],
            late     |-> [n \in Node |-> j.late[n]],
            prewire  |-> [n \in Node |-> ToSet(j.prewire[n])],
            once     |-> [n \in Node |-> j.once[n]],
            ptr      |-> [n \in Node |-> {j.single[n][i] : i \in {k \in 1..Len(j.single[n]) : j.kinds[n][k] # "name-iface"}}],
            ilook    |-> [n \in Node |-> j.ilook[n]]]

TraceScenarios == {ScOf(Trace[1].sc)}

Proj(v) == [n |-> v.n, o |-> v.o]

\* the NEXT state equals the logged snapshot
CacheMatchesP(st) ==
  /\ \A n \in Node : L1'[n] = st.L1[n] /\ L2'[n] = st.L2[n]
  /\ L3' = ToSet(st.L3) /\ inCr' = ToSet(st.inCr)
\* fields: the snapshot is taken when the registry call returns, i.e. BEFORE the Property.Inject
\* that the step performs; it therefore shows the field state at the beginning of the step.
FieldsMatch(st) ==
  /\ \A h, t \in Node : Proj(fS[h][t]) = st.fS[h][t]
  /\ \A h \in Node : /\ Len(fL[h]) = Len(st.fL[h])
                     /\ \A i \in 1..Len(fL[h]) : Proj(fL[h][i]) = st.fL[h][i]
StateMatchesP(st) == CacheMatchesP(st) /\ FieldsMatch(st)

E == Trace[l]
IsEv(name) == l <= Len(Trace) /\ E.ev = name /\ l' = l + 1
TopIs(n) == stack # <<>> /\ Top.n = n

TGet == /\ IsEv("get")
        /\ LET r == Lookup(E.n) IN (E.res = r.v) /\ (E.err = r.err) /\ (E.ran = r.ran)
        /\ \E kind \in {"S", "L", "top", "I"} : Get(E.n, kind)
TCreateBegin == IsEv("createBegin") /\ TopIs(E.n) /\ CreateBegin
TAddFactory  == IsEv("addFactory") /\ TopIs(E.n) /\ AddFactory
TResolve == IsEv("resolve") /\ TopIs(E.n) /\ E.ok = ~Faulty(E.n, "resolve") /\ Resolve
TBefore  == IsEv("before") /\ TopIs(E.n) /\ E.ok = ~Faulty(E.n, "before") /\ BInit
TAps     == IsEv("aps") /\ TopIs(E.n) /\ E.ok = ~Faulty(E.n, "aps") /\ APS
TInit    == IsEv("init") /\ TopIs(E.n) /\ E.ok = ~Faulty(E.n, "init") /\ InitCb
TAfter   == IsEv("after") /\ TopIs(E.n) /\ E.ok = ~Faulty(E.n, "after") /\ (AInit \/ SAfter)
TRun     == IsEv("run") /\ E.ok = (sc.fail[E.n] # "run") /\ RunnerRun(E.n)
TBinst   == IsEv("binst") /\ TopIs(E.n) /\ Shortcut
TCheck   == IsEv("getNoEarly") /\ TopIs(E.n) /\ E.res = L2[E.n] /\ ~E.err /\ Check
TCreateEnd == /\ IsEv("createEnd") /\ TopIs(E.n)
              /\ E.ok = (Top.pc = "end") /\ (E.ok => E.res = Top.exp)
              /\ CreateEnd
TRunReturn == /\ IsEv("runReturn") /\ stack = <<>> /\ ~E.panic
              /\ IF E.ok THEN RefreshDone ELSE (status = "failed" /\ UNCHANGED vars)
\* GetComponentByName returned to the user: no engine step; what it returned is the published object
TLookupReturn == /\ IsEv("lookupReturn") /\ stack = <<>> /\ status \in {"done", "failed"}
                 /\ E.ok => LET v == IF L1[E.n] # NoV THEN L1[E.n] ELSE L2[E.n] IN v # NoV /\ E.res = Proj(v)
                 /\ UNCHANGED vars
\* Factory.GetComponents returned: every object it handed out is the published one of its component, each component once
TLookupAll == /\ IsEv("lookupAll") /\ stack = <<>> /\ status \in {"done", "failed"}
              /\ E.ok => /\ \A i \in 1..Len(E.res) : E.res[i].n \in Node /\ E.res[i] = Proj(L1[E.res[i].n])
                          /\ {E.res[j].n : j \in 1..Len(E.res)} = Node /\ Len(E.res) = N
              /\ UNCHANGED vars
\* the component's Init() got its answer from GetComponentByName (sc.ilook): no engine step of its own
TILooked == IsEv("ilooked") /\ stack # <<>> /\ Top.n = E.n /\ sc.ilook[E.n] = E.t /\ UNCHANGED vars
TProcInit == IsEv("procInit") /\ E.populated /\ E.depInited /\ ProcInit(E.n)
TReset == /\ IsEv("scenario")
          /\ ResetTo(ScOf(E.sc))

TraceInit == l = 2 /\ Init
TraceNext ==
  /\ \/ TGet \/ TCreateBegin \/ TAddFactory \/ TResolve \/ TBefore \/ TAps \/ TInit \/ TAfter
     \/ TCheck \/ TCreateEnd \/ TRunReturn \/ TLookupReturn \/ TILooked \/ TProcInit \/ TBinst \/ TRun \/ TLookupAll \/ TReset
  /\ (E.ev # "scenario" => StateMatchesP(E.st))
  \* the node's own configuration values are bound in the Resolve step (ahead of every dependency fetch), and never for a
  \* component a processor short-cuts past population
  /\ ((E.ev \in {"before", "aps", "init", "after"} /\ "cfg" \in DOMAIN E) => E.cfg = (sc.mode[E.n] # "shortcut"))
TraceSpec == TraceInit /\ [][TraceNext]_<<vars, l>>

\* published instances never change (scenario resets excepted)
T_PublishedStable == [][E.ev # "scenario" => \A n \in Node : L1[n] # NoV => L1'[n] = L1[n]]_<<vars, l>>

\* every line was consumed: the real execution is a behaviour of the specification
Accepted == IF TLCGet("stats").diameter = Len(Trace) THEN TRUE
            ELSE Print(<<"REJECTED_AFTER_LINE", TLCGet("stats").diameter, "OF", Len(Trace)>>, FALSE)
=============================================================================
