--------------------------- MODULE MCTagGrammar ---------------------------
(* Every token string up to MaxLen tokens: the declarative statements hold of the operational parse, and the  *)
(* strings are exported for the harness, which feeds each to the real NewProperty.                               *)
EXTENDS TagGrammar, Json, SequencesExt
CONSTANTS MaxLen, ExportLen, OutFile
Tokens == {",", "=", " ", "(", ")", "[", "]", "{", "required", "Required", "false", "x"}
Strings(n) == UNION {[1..k -> Tokens] : k \in 0..n}
ASSUME ndJsonSerialize(OutFile, SetToSeq({[tag |-> t] : t \in Strings(ExportLen)}))
VARIABLE tag
Init == tag \in Strings(MaxLen)
Next == UNCHANGED tag
Spec == Init /\ [][Next]_tag
Inv == C19_SplitLossless(tag) /\ C19_ValuePrefix(tag) /\ C19_GroupsKept(tag) /\ C19_CaseFolded(tag) /\ C19_RequiredOnlyFalse(tag)
=============================================================================
