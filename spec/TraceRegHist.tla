--------------------------- MODULE TraceRegHist ---------------------------
(***************************************************************************)
(* Free-running histories of the real component-definition registry       *)
(* (harness/regstress.go): G goroutines register definitions and           *)
(* enumerate them concurrently, as user-written scanners do in the         *)
(* parallel scanning phase.  The registry only grows, so a history has a   *)
(* sequential explanation (SyncMap.tla: RReg / RGetOrReg / RMetas /        *)
(* RByName) iff                                                            *)
(*   - every enumeration contains every definition whose registration      *)
(*     RETURNED before the enumeration was INVOKED           (nothing lost) *)
(*   - and only definitions whose registration was invoked before the      *)
(*     enumeration returned                                 (no phantoms), *)
(*   - a lookup by name that starts after the registration returned finds  *)
(*     it, a registration through GetMetaOrRegister of a fresh name wins.  *)
(* Events arrive sorted by their return stamp; `inv`/`ret` are drawn from  *)
(* one atomic counter before the call is issued / after it returned, so    *)
(* the logged interval contains the real one.                              *)
(***************************************************************************)
EXTENDS Integers, Sequences, FiniteSets, TLC, Json
CONSTANT TraceFile
Trace == ndJsonDeserialize(TraceFile)
VARIABLES l,        \* next line
          regs,     \* registrations consumed so far: [k, inv, ret]
          pend,     \* enumerations whose "no phantom" half waits for the end of the history: [ks, ret]
          lostOK, phantomOK, nameOK, winOK,
          retOK     \* every operation returned (a round whose goroutines never came back is recorded as "stuck")
vars == <<l, regs, pend, lostOK, phantomOK, nameOK, winOK, retOK>>
E == Trace[l]
ToSet(s) == {s[i] : i \in 1..Len(s)}
\* every enumeration consumed so far contains only definitions whose registration was invoked before it returned
NoPhantoms(rs, ps) == \A p \in ps : \A k \in p.ks : \E r \in rs : r.k = k /\ r.inv < p.ret
Init == l = 1 /\ regs = {} /\ pend = {} /\ lostOK = TRUE /\ phantomOK = TRUE /\ nameOK = TRUE /\ winOK = TRUE /\ retOK = TRUE
Step ==
  /\ l <= Len(Trace) /\ l' = l + 1
  /\ retOK' = (retOK /\ ~(E.a = "ev" /\ E.op = "stuck"))
  /\ IF E.a \in {"hist", "end"} \/ E.op = "stuck"
     THEN \* "end" closes a history: settle the "no phantom" half; "hist" opens the next one
          /\ phantomOK' = (phantomOK /\ NoPhantoms(regs, pend))
          /\ regs' = {} /\ pend' = {}
          /\ UNCHANGED <<lostOK, nameOK, winOK>>
     ELSE CASE E.op = "reg" ->
                 /\ regs' = regs \cup {[k |-> E.k, inv |-> E.inv, ret |-> E.ret]}
                 /\ winOK' = (winOK /\ ~E.hit)
                 /\ UNCHANGED <<pend, lostOK, phantomOK, nameOK>>
            [] E.op = "metas" ->
                 /\ lostOK' = (lostOK /\ \A r \in regs : r.ret < E.inv => r.k \in ToSet(E.ks))
                 /\ pend' = pend \cup {[ks |-> ToSet(E.ks), ret |-> E.ret]}
                 /\ winOK' = (winOK /\ Len(E.ks) = Cardinality(ToSet(E.ks)))      \* each definition once
                 /\ UNCHANGED <<regs, phantomOK, nameOK>>
            [] E.op = "byname" ->
                 /\ nameOK' = (nameOK /\ ((\E r \in regs : r.k = E.k /\ r.ret < E.inv) => E.hit))
                 /\ UNCHANGED <<regs, pend, lostOK, phantomOK, winOK>>
MonitorSpec == Init /\ [][Step]_vars
\* C10 / C20: a definition registered by one goroutine is never lost to another
M_C10_NoLostDefinition == lostOK
M_C20_NoPhantomDefinition == phantomOK
M_C20_LookupFindsRegistered == nameOK
M_C20_OneWinnerPerName == winOK
M_C20_RegistryReturns == retOK
Accepted == IF TLCGet("stats").diameter = Len(Trace) + 1 THEN TRUE
            ELSE Print(<<"REJECTED_AFTER_LINE", TLCGet("stats").diameter - 1, "OF", Len(Trace)>>, FALSE)
=============================================================================
