--------------------------- MODULE TraceConfig ---------------------------
(* One line per real start: the option sequence given to App.Run (real temp files, raw and args loaders) and  *)
(* the effective configuration read back through App.Get for every leaf path (and a prefix-bound struct).      *)
(* The state is assigned from the record; the Config.tla property operators judge it.                          *)
EXTENDS Config, Json, SequencesExt
CONSTANT TraceFile
Trace == ndJsonDeserialize(TraceFile)
VARIABLE l
E == Trace[l]
ScOf(j) == [opts |-> [i \in 1..Len(j.opts) |-> [kind |-> j.opts[i].kind, lk |-> j.opts[i].lk, keys |-> ToSet(j.opts[i].keys), val |-> j.opts[i].val, join |-> j.opts[i].join]]]
TraceScenarios == {ScOf(Trace[1])}
TraceInit == l = 1 /\ Init
MStep == /\ l <= Len(Trace) /\ l' = l + 1
         /\ sc' = ScOf(E) /\ k' = Len(E.opts) /\ phase' = "ready"
         /\ loaders' = Sources(ScOf(E).opts, Len(E.opts))     \* not observable; the effective configuration is
         /\ eff' = [p \in Paths |-> IF p \in DOMAIN E.eff THEN E.eff[p] ELSE None]
MonitorSpec == TraceInit /\ [][MStep]_<<vars, l>>
\* the prefix-bound struct shows the same effective values as the per-path lookups
M_C15_StructAgrees == l > 1 => LET R == Trace[l - 1] IN \A p \in DOMAIN R.eff : p \in DOMAIN R.bound /\ R.eff[p] = R.bound[p]
M_C15_RunOk == l > 1 => Trace[l - 1].ok
Accepted == IF TLCGet("stats").diameter = Len(Trace) + 1 THEN TRUE
            ELSE Print(<<"REJECTED_AFTER_LINE", TLCGet("stats").diameter - 1, "OF", Len(Trace)>>, FALSE)
=============================================================================
