--------------------------- MODULE Config ---------------------------
(***************************************************************************)
(* Configuration sources of go-kid/ioc (app/options.go,                    *)
(* configure/configure.go, configure/loader/*.go, binder/viper.go):        *)
(* application options build the loader list                               *)
(*   SetConfig(file)        -> AddLoaders(file loader)   (priority, Order 0)*)
(*   AddConfigLoader(l...)  -> AddLoaders(l...)          (fix F5; the code *)
(*                             at the pinned commit called SetLoaders)     *)
(*   SetConfigLoader(l...)  -> SetLoaders(l...)          (replaces)        *)
(* (the variadic forms take several loaders, of any kind, file loaders     *)
(* included: an option with join = TRUE is a further loader of the call    *)
(* the option before it started)                                           *)
(* Initialize sorts the list by the ordering contract (Ordering.tla: file  *)
(* loaders first, ties free, the others in list order) and merges the      *)
(* loaders' documents left to right into the binder (deep merge: a later   *)
(* source overrides a key, other keys stay).                               *)
(* Documents are kind-consistent key trees over the leaf paths Paths; the  *)
(* loader created by option i supplies the marker value opts[i].val for    *)
(* each of its paths, so the effective configuration shows which source    *)
(* won.  Markers may repeat: two options may carry the very same document. *)
(***************************************************************************)
EXTENDS Ordering, TLC

CONSTANTS Scenarios, Paths, FixF5
None == 0
VARIABLES sc, k, loaders, eff, phase
vars == <<sc, k, loaders, eff, phase>>
\* k: options applied so far; loaders: sequence of option indices whose loader is in the list

NO == Len(sc.opts)
InitWith(s) == sc = s /\ k = 0 /\ loaders = <<>> /\ eff = [p \in Paths |-> None] /\ phase = "options"
Init == \E s \in Scenarios : InitWith(s)

\* one application option (an "init" entry is handled by MidInit below)
ApplyOpt ==
  /\ phase = "options" /\ k < NO /\ sc.opts[k + 1].kind # "init"
  /\ LET o == sc.opts[k + 1] IN      \* (o.join: a further loader of the SAME variadic Set/AddConfigLoader call as the option before)
     loaders' = CASE o.join -> Append(loaders, k + 1)
                  [] o.kind = "file" -> Append(loaders, k + 1)
                  [] o.kind = "add"  -> IF FixF5 THEN Append(loaders, k + 1) ELSE <<k + 1>>
                  [] o.kind = "set"  -> <<k + 1>>
  /\ k' = k + 1 /\ UNCHANGED <<sc, eff, phase>>

\* the participants handed to the ordering contract: file loaders are priority-ordered with Order 0
\* (user-written loaders may implement Ordered / Priority themselves: lk "ordm" "ordz" "ordp" are ordered with Order -1 0 1,
\*  "priom" "priop" priority-ordered with Order -1 1; raw and args loaders are unordered, and so is "markl": a loader carrying
\*  the Priority marker without an Order())
Part(i) == LET lkd == sc.opts[i].lk IN
           CASE lkd = "file" -> [cls |-> "prio", ord |-> 0]
             [] lkd = "priom" -> [cls |-> "prio", ord |-> 0 - 1] [] lkd = "priop" -> [cls |-> "prio", ord |-> 1]
             [] lkd = "ordm" -> [cls |-> "ord", ord |-> 0 - 1] [] lkd = "ordz" -> [cls |-> "ord", ord |-> 0] [] lkd = "ordp" -> [cls |-> "ord", ord |-> 1]
             [] OTHER -> [cls |-> "un", ord |-> 0]
Parts == [j \in 1..Len(loaders) |-> Part(loaders[j])]
\* the unordered loaders keep their list order (noneOrderedComponents is appended in input order)
KeepsListOrder(p) == \A a, b \in 1..Len(p) : (a < b /\ Parts[p[a]].cls = "un" /\ Parts[p[b]].cls = "un") => p[a] < p[b]
Sequences == {p \in [1..Len(loaders) -> 1..Len(loaders)] : IsSortedPerm(p, Parts) /\ KeepsListOrder(p)}
Merge(m, i) == [p \in Paths |-> IF p \in sc.opts[i].keys THEN sc.opts[i].val ELSE m[p]]
RECURSIVE Fold(_, _, _)
Fold(p, j, m) == IF j > Len(p) THEN m ELSE Fold(p, j + 1, Merge(m, loaders[p[j]]))
\* Configure.Initialize: sort, then merge left to right ON TOP of what the binder already holds (viper MergeConfig);
\* the sorted list is what the Configure keeps (c.loaders = SortOrderedComponents(c.loaders)).
Initialize ==
  /\ phase = "options" /\ k = NO
  /\ \E p \in Sequences : eff' = Fold(p, 1, eff) /\ loaders' = [j \in 1..Len(loaders) |-> loaders[p[j]]]
  /\ phase' = "ready" /\ UNCHANGED <<sc, k>>
\* An "init" entry in the option sequence: the Configure is initialised in the middle (a first application start on a
\* shared Configure); later options keep acting on the same loader list and the next Initialize sorts and loads AGAIN.
MidInit ==
  /\ phase = "options" /\ k < NO /\ sc.opts[k + 1].kind = "init"
  /\ \E p \in Sequences : eff' = Fold(p, 1, eff) /\ loaders' = [j \in 1..Len(loaders) |-> loaders[p[j]]]
  /\ k' = k + 1 /\ UNCHANGED <<sc, phase>>
Next == ApplyOpt \/ MidInit \/ Initialize
Spec == Init /\ [][Next]_vars

\* ================================================================ properties
\* the sources an option sequence configures, defined on the options alone: "set" replaces, everything else adds
RECURSIVE Sources(_, _)
Sources(opts, n) == IF n = 0 THEN <<>>
                    ELSE IF opts[n].kind = "set" /\ ~opts[n].join THEN <<n>>
                    ELSE IF opts[n].kind = "init" THEN Sources(opts, n - 1) ELSE Append(Sources(opts, n - 1), n)
\* (an Initialize stores the list sorted, so the list is compared as a collection)
C15_AddKeeps == phase = "ready" => (Len(loaders) = Len(Sources(sc.opts, NO)) /\ Range(loaders) = Range(Sources(sc.opts, NO)))
\* a later add-option never shrinks the list
C15_AddMonotone == [][(k' = k + 1 /\ (sc.opts[k + 1].kind \notin {"set", "init"} \/ sc.opts[k + 1].join)) => (Len(loaders') = Len(loaders) + 1 /\ SubSeq(loaders', 1, Len(loaders)) = loaders)]_vars
\* effective configuration = deep merge in the loader sequence: last supplier wins, single suppliers stay visible
Suppliers(p) == {i \in Range(Sources(sc.opts, NO)) : p \in sc.opts[i].keys}
\* a supplier that every valid loader sequence places before another supplier cannot be the last one to write the key:
\* the ordering contract (Precedes: priority < ordered < unordered, Order ascending, ties free) and, among the unordered
\* loaders, the order in which they were added
MustBeBefore(a, b) == Precedes(Part(a), Part(b)) \/ (Part(a).cls = "un" /\ Part(b).cls = "un" /\ a < b)
Winner(p) ==   \* the values that may win: those of the suppliers that can come last
  LET S == Suppliers(p) IN
  IF S = {} THEN {None} \cup {sc.opts[i].val : i \in {j \in 1..NO : sc.opts[j].kind # "init" /\ p \in sc.opts[j].keys}}   \* (left over from an earlier Initialize)
  ELSE {sc.opts[i].val : i \in {x \in S : ~\E y \in S \ {x} : MustBeBefore(x, y)}}
C15_Fold == phase = "ready" => \A p \in Paths : eff[p] \in Winner(p)
C15_SingleSupplierVisible == phase = "ready" => \A p \in Paths : (\E i \in Suppliers(p) : Suppliers(p) = {i}) => eff[p] \in {sc.opts[i].val : i \in Suppliers(p)}
=============================================================================
