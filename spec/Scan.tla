--------------------------- MODULE Scan ---------------------------
(***************************************************************************)
(* Tag scanning of go-kid/ioc (component_definition/meta.go scanFields,    *)
(* util/reflectx/range_struct.go, container/processors/                    *)
(* default_tag_scan_definition_registry_post_processor.go) over struct     *)
(* SHAPES: trees of fields.                                                *)
(*   scanFields walks the fields of a holder in declaration order with an  *)
(*   explicit work stack: an ANONYMOUS, UNTAGGED, BY-VALUE struct field is *)
(*   descended into (its fields are treated as the component's own), a     *)
(*   field that cannot be set (unexported, or inside an unexported embed)  *)
(*   is skipped, every other field is collected.  Each tag processor then  *)
(*   claims the collected fields that carry its tag.                       *)
(* Leaves carry an identity (id) so that a shape and its flattening can be *)
(* compared.  Tags: value / prop / prefix (bind a configuration value),     *)
(* wire / func (inject components), logger, cust (a user-supplied tag      *)
(* processor), foreign (unrecognised), none.                               *)
(***************************************************************************)
EXTENDS Integers, Sequences, FiniteSets, TLC

CONSTANT Shapes        \* set of root field sequences
\* recognised tags: configuration (value, prop, prefix), components (wire, func), the logger tag, and a user-supplied tag (cust)
Recognised == {"value", "prop", "prefix", "wire", "func", "logger", "cust"}

VARIABLES sc, work, collected, claimed, phase
vars == <<sc, work, collected, claimed, phase>>
\* work      : stack of [fs, i, settable] (field sequence, next index, whether values reached this way can be set)
\* collected : sequence of collected fields (Meta.Fields)
\* claimed   : set of [id, tag] claimed by a tag processor

InitWith(s) == sc = s /\ work = <<[fs |-> s, i |-> 1, settable |-> TRUE]>> /\ collected = <<>> /\ claimed = {} /\ phase = "scan"
Init == \E s \in Shapes : InitWith(s)

Top == work[Len(work)]
PopW == SubSeq(work, 1, Len(work) - 1)
Advance == [work EXCEPT ![Len(work)].i = @ + 1]

\* one field is visited
Visit ==
  /\ phase = "scan" /\ work # <<>> /\ Top.i <= Len(Top.fs)
  /\ LET f == Top.fs[Top.i] IN
     IF f.k = "struct" /\ f.anon /\ f.tag = "none" /\ ~f.ptr
     THEN \* embedded struct: look inside.  Go's reflection keeps EXPORTED fields of an embedded struct settable even
          \* when the embedded type itself is unexported (they are promoted fields), so settable is inherited as is
          /\ work' = Append(Advance, [fs |-> f.kids, i |-> 1, settable |-> Top.settable])
          /\ UNCHANGED collected
     ELSE IF ~(Top.settable /\ f.exp)
     THEN work' = Advance /\ UNCHANGED collected                       \* cannot be set: skipped
     ELSE work' = Advance /\ collected' = Append(collected, f)          \* an ordinary field of the component
  /\ UNCHANGED <<sc, claimed, phase>>
Return ==
  /\ phase = "scan" /\ work # <<>> /\ Top.i > Len(Top.fs)
  /\ work' = PopW /\ phase' = IF Len(work) = 1 THEN "claim" ELSE phase
  /\ UNCHANGED <<sc, collected, claimed>>
\* a tag processor claims every collected field carrying its tag (one step per processor)
Claim(t) ==
  /\ phase = "claim" /\ t \in Recognised /\ ~(\E c \in claimed : c.tag = t) /\ (\E j \in 1..Len(collected) : collected[j].tag = t)
  /\ claimed' = claimed \cup {[id |-> collected[j].id, tag |-> t] : j \in {x \in 1..Len(collected) : collected[x].tag = t}}
  /\ UNCHANGED <<sc, work, collected, phase>>
Finish ==
  /\ phase = "claim" /\ \A t \in Recognised : (\E j \in 1..Len(collected) : collected[j].tag = t) => (\E c \in claimed : c.tag = t)
  /\ phase' = "done" /\ UNCHANGED <<sc, work, collected, claimed>>
Next == Visit \/ Return \/ (\E t \in Recognised : Claim(t)) \/ Finish
Spec == Init /\ [][Next]_vars

\* ================================================================ declarative expectations
\* a struct field the scanner sees through
Transparent(f) == f.k = "struct" /\ f.anon /\ f.tag = "none" /\ ~f.ptr
\* fields that belong to the component (are processed as its own), as [id, tag]: reachable through
\* transparent embeds only (of exported or unexported type), exported themselves, carrying a recognised tag
RECURSIVE Own(_, _)
Own(fs, settable) ==
  UNION {LET f == fs[i] IN
         IF Transparent(f) THEN Own(f.kids, settable)
         ELSE IF settable /\ f.exp /\ f.tag \in Recognised THEN {[id |-> f.id, tag |-> f.tag]} ELSE {} : i \in 1..Len(fs)}
\* the flattening of a shape: transparent embeds are replaced by their fields
RECURSIVE Flatten(_)
Flatten(fs) ==
  IF fs = <<>> THEN <<>>
  ELSE LET f == fs[1] IN
       (IF Transparent(f) THEN Flatten(f.kids) ELSE <<f>>) \o Flatten(Tail(fs))
\* C11: processed identically whether declared directly or inside anonymous untagged by-value embeds
C11_Flatten == phase = "done" => claimed = Own(Flatten(sc), TRUE)
\* C11: a tag processor receives exactly the fields carrying its tag
C11_Exactly == phase = "done" => claimed = Own(sc, TRUE)
\* C11: nothing else is touched: what is claimed is exported, recognised, and not hidden behind an opaque field
C11_Frame == \A c \in claimed : c.tag \in Recognised /\ c \in Own(sc, TRUE)
\* each field is claimed at most once (ids are unique in a shape)
C11_Once == \A j1, j2 \in 1..Len(collected) : j1 # j2 => collected[j1].id # collected[j2].id
=============================================================================
