--------------------------- MODULE MCEngFW2 ---------------------------
(* Family FW2: faults together with substitution: single-edge graphs x lazies x wrap modes x fault modes. *)
(* One family per module: TLC evaluates constant definitions when a module is loaded.          *)
EXTENDS Container

AllFalse == [n \in Node |-> FALSE]
AllTrue == [n \in Node |-> TRUE]
NoWrap == [n \in Node |-> "none"]
NoFail == [n \in Node |-> "none"]
Empty == [n \in Node |-> {}]
Disj == {p \in (SUBSET Node) \X (SUBSET Node) : p[1] \cap p[2] = {}}
NoSelfGraphs == {x \in [Node -> SUBSET Node] : \A n \in Node : n \notin x[n]}
Fam == {[single |-> g, selfOpt |-> AllFalse, slice |-> Empty, sliceOpt |-> AllFalse, lazy |-> lz, wrap |-> w, fail |-> fl, procs |-> <<>>, mode |-> [n \in Node |-> "normal"], rorder |-> <<>>, ilook |-> NoLook] :
          g \in [Node -> SUBSET Node], lz \in SUBSET Node, w \in [Node -> WrapMode], fl \in [Node -> FailMode]}
=============================================================================
