--------------------------- MODULE MCEngA ---------------------------
(* Family A: every resolved graph over N nodes where each ordered pair (h,t), self included, is  *)
(* none / single-valued point / slice member.  No substitution, no faults, no lazies.            *)
EXTENDS Container
AllFalse == [n \in Node |-> FALSE]
NoWrap == [n \in Node |-> "none"]
NoFail == [n \in Node |-> "none"]
Disj == {p \in (SUBSET Node) \X (SUBSET Node) : p[1] \cap p[2] = {}}
Fam == {[single |-> [n \in Node |-> g[n][1]], selfOpt |-> AllFalse, slice |-> [n \in Node |-> g[n][2]],
         sliceOpt |-> AllFalse, lazy |-> {}, wrap |-> NoWrap, fail |-> NoFail, procs |-> <<>>, mode |-> [n \in Node |-> "normal"], rorder |-> <<>>, ilook |-> NoLook] : g \in [Node -> Disj]}
=============================================================================
