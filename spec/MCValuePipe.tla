--------------------------- MODULE MCValuePipe ---------------------------
(* C17: the twin relation on the class table; C18: export of every expression tree up to depth 2 with its value. *)
EXTENDS ValuePipe, Json, SequencesExt
CONSTANT OutFile
Lit(x) == [op |-> "lit", v |-> x, l |-> 0, r |-> 0]
Ph(k) == [op |-> "ph", v |-> IntV(0), k |-> k, l |-> 0, r |-> 0]
Lits == {Lit(IntV(n)) : n \in 0..3} \cup {Lit(BoolV(b)) : b \in BOOLEAN} \cup {Lit(StrV(x)) : x \in {"x", "yz"}}
Phs == {Ph("a"), Ph("b")}
Leafs == Lits \cup Phs
Ops == {"+", "-", "*", ">", "==", "&&", "||"}
Node(o, x, y) == [op |-> o, v |-> IntV(0), k |-> "", l |-> x, r |-> y]
D1 == {Node(o, x, y) : o \in Ops, x \in Leafs, y \in Leafs}
D2 == {Node(o, x, y) : o \in {"+", "*", "==", "&&", ">"}, x \in {d \in D1 : d.op \in {"+", "-", ">", "||"}}, y \in {Lit(IntV(2)), Lit(BoolV(TRUE)), Ph("a")}}
Cfgs == {[a |-> IntV(2), b |-> IntV(3)], [a |-> IntV(0), b |-> IntV(1)], [a |-> BoolV(TRUE), b |-> BoolV(FALSE)]}
Show(x) == IF x.t = "err" THEN "err" ELSE IF x.t = "bool" THEN (IF x.v = 1 THEN "true" ELSE "false")
           ELSE IF x.t = "str" THEN x.s ELSE ToString(x.v)
Quote(x) == IF x.t = "str" THEN "'" \o x.s \o "'" ELSE Show(x)
\* render an expression as the text of a #{...} body (fully parenthesised)
RECURSIVE Text(_)
Text(e) == IF e.op = "lit" THEN Quote(e.v)
           ELSE IF e.op = "ph" THEN "${" \o e.k \o "}"
           ELSE "(" \o Text(e.l) \o " " \o e.op \o " " \o Text(e.r) \o ")"
\* the evaluator resolves placeholders through cfg: make Eval's "ph" case read the key
EvalT(e, c) == Eval(e, c)
AllCases == {[text |-> Text(e), cfg |-> [a |-> Show(c.a), b |-> Show(c.b)], val |-> Show(EvalT(e, c)), t |-> EvalT(e, c).t] : e \in D1 \cup D2, c \in Cfgs}
Cases == {[text |-> x.text, cfg |-> x.cfg, val |-> x.val] : x \in {y \in AllCases : y.t # "oos"}}
ASSUME ndJsonSerialize(OutFile, SetToSeq(Cases))
VARIABLE x
Init == x = 0
Next == UNCHANGED x
Spec == Init /\ [][Next]_x
Twin == C17_Twin
TwinExceptKnown == C17_TwinExceptKnown
Consistent == C17_ModelConsistent
=============================================================================
