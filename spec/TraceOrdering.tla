--------------------------- MODULE TraceOrdering ---------------------------
(* Each line: the participants handed to the real SortOrderedComponents (in registration order) and the *)
(* sequence of indices it returned.  The result must be a sorted permutation per Ordering.tla.           *)
EXTENDS Ordering, TLC, Json, SequencesExt
CONSTANT TraceFile
Trace == ndJsonDeserialize(TraceFile)
VARIABLES l, ok
E == Trace[l]
PartsOf(j) == [i \in 1..Len(j) |-> [cls |-> j[i].cls, ord |-> j[i].ord]]
TraceInit == l = 1 /\ ok = TRUE
MStep == /\ l <= Len(Trace) /\ l' = l + 1
         /\ ok' = IsSortedPerm(E.out, PartsOf(E.parts))
MonitorSpec == TraceInit /\ [][MStep]_<<l, ok>>
C12_SortedPermutation == ok
Accepted == IF TLCGet("stats").diameter = Len(Trace) + 1 THEN TRUE
            ELSE Print(<<"REJECTED_AFTER_LINE", TLCGet("stats").diameter - 1, "OF", Len(Trace)>>, FALSE)
=============================================================================
