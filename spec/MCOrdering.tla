--------------------------- MODULE MCOrdering ---------------------------
(***************************************************************************)
(* Ordering contract, spec -> implementation direction: TLC enumerates     *)
(* every sequence (= every multiset in every registration order) of up to  *)
(* MaxParts participants over the three classes and the Order values       *)
(* below (+-1000000 stand for MinInt / MaxInt, the harness maps them) and  *)
(* writes them to a file; the harness feeds each to the REAL               *)
(* SortOrderedComponents and TraceOrdering.tla checks every result.        *)
(* Also checks on the model that NextAllowed generates exactly the sorted  *)
(* permutations (the stepwise and the global formulation agree).           *)
(***************************************************************************)
EXTENDS Ordering, TLC, Json, SequencesExt
CONSTANT MaxParts, OutFile
Ords == {-1000000, -1, 0, 1, 1000000}
P == [cls : Classes, ord : Ords] \cup {Marked}
Cases == UNION {[1..k -> P] : k \in 0..MaxParts}
ASSUME ndJsonSerialize(OutFile, SetToSeq({[parts |-> c] : c \in Cases}))

VARIABLES parts, out
Init == parts \in UNION {[1..k -> P] : k \in 0..3} /\ out = <<>>
Step == \E i \in DOMAIN parts : NextAllowed(parts, out, i) /\ out' = Append(out, i) /\ UNCHANGED parts
Spec == Init /\ [][Step]_<<parts, out>>
\* stepwise choice always yields a prefix of a sorted permutation, and never gets stuck before the end
StepwiseSorted == IsSortedPrefix(out, parts) /\ (Len(out) = Len(parts) => IsSortedPerm(out, parts))
NeverStuck == Len(out) < Len(parts) => \E i \in DOMAIN parts : NextAllowed(parts, out, i)
=============================================================================
