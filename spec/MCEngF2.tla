--------------------------- MODULE MCEngF2 ---------------------------
(* Family F2: all single-edge graphs x every fault assignment x every lazy subset x optional self flags. *)
(* One family per module: TLC evaluates constant definitions when a module is loaded.          *)
EXTENDS Container

AllFalse == [n \in Node |-> FALSE]
AllTrue == [n \in Node |-> TRUE]
NoWrap == [n \in Node |-> "none"]
NoFail == [n \in Node |-> "none"]
Empty == [n \in Node |-> {}]
Disj == {p \in (SUBSET Node) \X (SUBSET Node) : p[1] \cap p[2] = {}}
NoSelfGraphs == {x \in [Node -> SUBSET Node] : \A n \in Node : n \notin x[n]}
Fam == {[single |-> g, selfOpt |-> so, slice |-> Empty, sliceOpt |-> AllFalse, lazy |-> lz, wrap |-> NoWrap, fail |-> fl, procs |-> <<>>, mode |-> [n \in Node |-> "normal"], rorder |-> <<>>, ilook |-> NoLook] :
          g \in [Node -> SUBSET Node], so \in [Node -> BOOLEAN], lz \in SUBSET Node, fl \in [Node -> FailMode]}
=============================================================================
