--------------------------- MODULE MCEngL2 ---------------------------
(* Family L2: slice-only graphs x optional flags x every lazy subset. *)
(* One family per module: TLC evaluates constant definitions when a module is loaded.          *)
EXTENDS Container

AllFalse == [n \in Node |-> FALSE]
AllTrue == [n \in Node |-> TRUE]
NoWrap == [n \in Node |-> "none"]
NoFail == [n \in Node |-> "none"]
Empty == [n \in Node |-> {}]
Disj == {p \in (SUBSET Node) \X (SUBSET Node) : p[1] \cap p[2] = {}}
NoSelfGraphs == {x \in [Node -> SUBSET Node] : \A n \in Node : n \notin x[n]}
Fam == {[single |-> Empty, selfOpt |-> so, slice |-> g, sliceOpt |-> so, lazy |-> lz, wrap |-> NoWrap, fail |-> NoFail, procs |-> <<>>, mode |-> [n \in Node |-> "normal"], rorder |-> <<>>, ilook |-> NoLook] :
          g \in [Node -> SUBSET Node], so \in {AllFalse, AllTrue}, lz \in SUBSET Node}
=============================================================================
