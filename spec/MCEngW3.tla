--------------------------- MODULE MCEngW3 ---------------------------
(* Family W3: graphs without single self points x exactly one substituted node with a mode from WModes (shardable). *)
(* One family per module: TLC evaluates constant definitions when a module is loaded.          *)
EXTENDS Container
CONSTANTS WModes
AllFalse == [n \in Node |-> FALSE]
AllTrue == [n \in Node |-> TRUE]
NoWrap == [n \in Node |-> "none"]
NoFail == [n \in Node |-> "none"]
Empty == [n \in Node |-> {}]
Disj == {p \in (SUBSET Node) \X (SUBSET Node) : p[1] \cap p[2] = {}}
NoSelfGraphs == {x \in [Node -> SUBSET Node] : \A n \in Node : n \notin x[n]}
Graphs3 == {g \in [Node -> Disj] : \A n \in Node : n \notin g[n][1]}
OneWrap == {[n \in Node |-> IF n = m THEN w ELSE "none"] : m \in Node, w \in WModes}
Fam == {[single |-> [n \in Node |-> g[n][1]], selfOpt |-> AllFalse, slice |-> [n \in Node |-> g[n][2]],
         sliceOpt |-> AllFalse, lazy |-> {}, wrap |-> w, fail |-> NoFail, procs |-> <<>>, mode |-> [n \in Node |-> "normal"], rorder |-> <<>>, ilook |-> NoLook] : g \in Graphs3, w \in OneWrap}
=============================================================================
