--------------------------- MODULE TraceSyncMap ---------------------------
(***************************************************************************)
(* What the REAL sync2.Map / ConcurrentSets did when the harness replayed  *)
(* TLC-generated schedules with real goroutines (harness/syncmap.go).      *)
(*   TraceSpec   : every action is the SyncMap.tla action with the same    *)
(*                 outcome (completed or stopped inside f, value, flag).   *)
(*   MonitorSpec : the operation history is assembled from the RECORDED    *)
(*                 outcomes; linearizability and one-winner are evaluated  *)
(*                 on it, whatever the model would have predicted.         *)
(***************************************************************************)
EXTENDS SyncMap, SequencesExt
CONSTANT TraceFile
Trace == ndJsonDeserialize(TraceFile)
VARIABLE l
E == Trace[l]
IsEv(name) == l <= Len(Trace) /\ E.a = name /\ l' = l + 1
LastOp == ops'[Len(ops')]
TStart == /\ IsEv("start") /\ E.v = Clock /\ Start(E.g, E.op, E.k)
          /\ E.done = (cur'[E.g] = Idle)
          /\ E.done => (LastOp.rv = E.rv /\ LastOp.rok = E.rok)
TRelease == /\ IsEv("release") /\ Release(E.g) /\ E.done
            /\ cur[E.g].op = E.op /\ cur[E.g].k = E.k /\ cur[E.g].v = E.v     \* the operation in flight is the one the model has there
            /\ LastOp.rv = E.rv /\ LastOp.rok = E.rok
ResetP == m' = [k \in Keys |-> None] /\ s' = [k \in Keys |-> FALSE] /\ cur' = [g \in G |-> Idle] /\ acts' = <<>> /\ ops' = <<>>
TReset == IsEv("hist") /\ ResetP
TraceInit == l = 2 /\ Init
TraceNext == TStart \/ TRelease \/ TReset
TraceSpec == TraceInit /\ [][TraceNext]_<<vars, l>>

\* monitor: m and s are not observable; the history (ops) is rebuilt from the recorded outcomes
\* Events: "start" (done: returned at once; ~done: inside f, or - blocked - waiting for something another goroutine holds),
\* "release" (f returned; done unless the operation then blocks), "unblock" (a blocked operation moved on: returned, or reached
\* f), "stuck" (never returned although nothing else was in flight).  An operation's interval in the history runs from its
\* start event to the event that reports its return.
MStep ==
  /\ l <= Len(Trace) /\ l' = l + 1
  /\ IF E.a = "hist" THEN ResetP
     ELSE /\ acts' = Append(acts, [a |-> E.a, g |-> E.g, op |-> E.op, k |-> E.k, v |-> E.v])
          /\ UNCHANGED <<m, s>>
          /\ IF ~E.done
             THEN /\ cur' = [cur EXCEPT ![E.g] = IF E.a = "start" THEN [g |-> E.g, op |-> E.op, k |-> E.k, v |-> E.v, st |-> Clock] ELSE @]
                  /\ UNCHANGED ops
             ELSE /\ cur' = [cur EXCEPT ![E.g] = Idle]
                  /\ ops' = Append(ops, [g |-> E.g, op |-> E.op, k |-> E.k, v |-> E.v,
                                         st |-> IF E.a = "start" THEN Clock ELSE cur[E.g].st, en |-> Clock,
                                         rv |-> E.rv, rok |-> E.rok])
MonitorSpec == TraceInit /\ [][MStep]_<<vars, l>>
\* every recorded history is linearizable once nothing is pending
M_C20_Linearizable == (\A g \in G : cur[g] = Idle) => Linearizable(ops)
\* every operation returns once nothing it could wait for is in flight any more
M_C20_Returns == \A i \in 1..Len(acts) : acts[i].a # "stuck"
Accepted == IF TLCGet("stats").diameter = Len(Trace) THEN TRUE
            ELSE Print(<<"REJECTED_AFTER_LINE", TLCGet("stats").diameter, "OF", Len(Trace)>>, FALSE)
=============================================================================
