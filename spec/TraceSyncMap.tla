--------------------------- MODULE TraceSyncMap ---------------------------
(***************************************************************************)
(* What the REAL sync2.Map / ConcurrentSets did when the harness replayed  *)
(* TLC-generated schedules with real goroutines (harness/syncmap.go).      *)
(*   TraceSpec   : every action is the SyncMap.tla action with the same    *)
(*                 outcome (completed or stopped inside f, value, flag).   *)
(*   MonitorSpec : the operation history is assembled from the RECORDED    *)
(*                 outcomes; linearizability and one-winner are evaluated  *)
(*                 on it, whatever the model would have predicted.         *)
(***************************************************************************)
EXTENDS SyncMap, SequencesExt
CONSTANT TraceFile
Trace == ndJsonDeserialize(TraceFile)
VARIABLE l
E == Trace[l]
IsEv(name) == l <= Len(Trace) /\ E.a = name /\ l' = l + 1
LastOp == ops'[Len(ops')]
TStart == /\ IsEv("start") /\ E.v = Clock /\ Start(E.g, E.op, E.k)
          /\ E.done = (cur'[E.g] = Idle)
          /\ E.done => (LastOp.rv = E.rv /\ LastOp.rok = E.rok)
TRelease == /\ IsEv("release") /\ Release(E.g) /\ E.done
            /\ LastOp.rv = E.rv /\ LastOp.rok = E.rok
ResetP == m' = [k \in Keys |-> None] /\ s' = [k \in Keys |-> FALSE] /\ cur' = [g \in G |-> Idle] /\ acts' = <<>> /\ ops' = <<>>
TReset == IsEv("hist") /\ ResetP
TraceInit == l = 2 /\ Init
TraceNext == TStart \/ TRelease \/ TReset
TraceSpec == TraceInit /\ [][TraceNext]_<<vars, l>>

\* monitor: m and s are not observable; the history (ops) is rebuilt from the recorded outcomes
MStep ==
  /\ l <= Len(Trace) /\ l' = l + 1
  /\ IF E.a = "hist" THEN ResetP
     ELSE /\ acts' = Append(acts, [a |-> E.a, g |-> E.g, op |-> E.op, k |-> E.k, v |-> E.v])
          /\ UNCHANGED <<m, s>>
          /\ IF E.a = "start" /\ ~E.done
             THEN cur' = [cur EXCEPT ![E.g] = [g |-> E.g, op |-> E.op, k |-> E.k, v |-> E.v, st |-> Clock]] /\ UNCHANGED ops
             ELSE /\ cur' = [cur EXCEPT ![E.g] = Idle]
                  /\ ops' = Append(ops, [g |-> E.g, op |-> E.op, k |-> E.k, v |-> E.v,
                                         st |-> IF E.a = "release" THEN cur[E.g].st ELSE Clock, en |-> Clock,
                                         rv |-> E.rv, rok |-> E.rok])
MonitorSpec == TraceInit /\ [][MStep]_<<vars, l>>
\* every recorded history is linearizable once nothing is pending
M_C20_Linearizable == (\A g \in G : cur[g] = Idle) => Linearizable(ops)
Accepted == IF TLCGet("stats").diameter = Len(Trace) THEN TRUE
            ELSE Print(<<"REJECTED_AFTER_LINE", TLCGet("stats").diameter, "OF", Len(Trace)>>, FALSE)
=============================================================================
