--------------------------- MODULE MCResC06 ---------------------------
(* C06 family: by-type and by-method points of every kind, without qualifier, one or two points  *)
(* per holder, every population of NProvs providers over ProvTypes, every iteration order.       *)
EXTENDS MCResCommon
TypePts == {Pt(k, "wire", 0, FALSE, {}, r) : k \in {"iface", "siface", "ptr", "sptr"}, r \in BOOLEAN}
           \cup {PtF(k, f, r) : k \in {"iface", "siface"}, f \in {"Mark", "Tick"}, r \in BOOLEAN}
           \cup {PtK(k, rt, TRUE) : k \in {"iface", "siface"}, rt \in {{}, {"A"}, {"A", "B"}, {"*"}}}
           \cup {Pt(k, "wire", 0, FALSE, {}, r) : k \in {"aiface", "aptr"}, r \in BOOLEAN} \cup {PtF("aiface", "Mark", FALSE)}   \* array-typed points
CorePts == {Pt(k, "wire", 0, FALSE, {}, TRUE) : k \in {"iface", "siface", "ptr", "sptr"}} \cup {PtF("siface", f, TRUE) : f \in {"Mark", "Tick"}}
PtLists == {<<a>> : a \in TypePts} \cup {<<a, b>> : a \in TypePts, b \in CorePts}
\* enumerated by nested quantification: building the set of scenario records first is far slower
MCInit == \E p \in Pops, l \in PtLists, ex \in BOOLEAN : InitWith([prov |-> p, pts |-> l, preset |-> FALSE, extra |-> ex])
=============================================================================
