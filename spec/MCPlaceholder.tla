--------------------------- MODULE MCPlaceholder ---------------------------
(* Family: every text of up to MaxLen characters over a small alphabet x every configuration of two keys whose *)
(* values are short texts over the same alphabet (so values contain placeholders, also circular ones).          *)
EXTENDS Placeholder
CONSTANTS MaxLen, MaxVal
Alpha == {"a", "$", "{", "}", ":"}
Texts(n) == UNION {[1..k -> Alpha] : k \in 0..n}
Vals == UNION {[1..k -> {"a", "b", "$", "{", "}"}] : k \in 0..MaxVal}
KeyA == <<"a">>
KeyB == <<"b">>
Kinds == {"str", "emap", "absent"}
\* the interesting texts contain a placeholder opener
Interesting(t) == \E i \in 1..(Len(t) - 1) : t[i] = "$" /\ t[i + 1] = "{"
Cfg(ka, va, kb, vb) ==
  LET ks == (IF ka = "absent" THEN <<>> ELSE <<KeyA>>) \o (IF kb = "absent" THEN <<>> ELSE <<KeyB>>)
      vs == (IF ka = "absent" THEN <<>> ELSE <<va>>) \o (IF kb = "absent" THEN <<>> ELSE <<vb>>)
      kd == (IF ka = "absent" THEN <<>> ELSE <<ka>>) \o (IF kb = "absent" THEN <<>> ELSE <<kb>>)
  IN [keys |-> ks, vals |-> vs, kinds |-> kd]
\* key ${} (empty key) reads the whole configuration: outside the property's scope, never generated
NoEmptyKey(t) == \A i \in 1..(Len(t) - 2) : ~(t[i] = "$" /\ t[i + 1] = "{" /\ t[i + 2] \in {"}", ":"})
MCInit == \E t \in {x \in Texts(MaxLen) : Interesting(x) /\ NoEmptyKey(x)}, ka \in Kinds, kb \in Kinds :
            \E va \in (IF ka = "str" THEN {v \in Vals : NoEmptyKey(v)} ELSE {<<>>}), vb \in (IF kb = "str" THEN {<<"a">>, <<"$", "{", "a", "}">>} ELSE {<<>>}) :
               InitWith([text |-> t, cfg |-> Cfg(ka, va, kb, vb)])
C16_TerminatesFair == WF_vars(Next) => C16_Terminates
=============================================================================
