--------------------------- MODULE TraceResolve ---------------------------
(***************************************************************************)
(* Conformance of the real candidate-resolution pipeline with Resolve.tla: *)
(* per scenario the harness records Property.Injects of the holder after   *)
(* collection (observer at Order 3) and after further matching (Order 5),  *)
(* and the outcome of Run with the holder's fields.  Every property        *)
(* operator of Resolve.tla is evaluated on the states the real code went   *)
(* through.  Files hold many scenarios ("scenario" lines reset the state). *)
(***************************************************************************)
EXTENDS Resolve, Json, SequencesExt

CONSTANT TraceFile
Trace == ndJsonDeserialize(TraceFile)
VARIABLES l,      \* position in the trace
          first   \* C10: outcome of the first run of the current scenario (later runs differ only in the orders)
NoFirst == [set |-> FALSE]
ScOf(j) == [prov |-> [i \in 1..Len(j.prov) |-> [ty |-> j.prov[i].ty, named |-> j.prov[i].named, q |-> j.prov[i].q]],
            pts |-> [i \in 1..Len(j.pts) |-> [kind |-> j.pts[i].kind, tag |-> j.pts[i].tag, byName |-> j.pts[i].byName,
                                              q |-> ToSet(j.pts[i].q), hasQ |-> j.pts[i].hasQ, req |-> j.pts[i].req, fn |-> j.pts[i].fn, ret |-> ToSet(j.pts[i].ret)]],
            preset |-> j.preset, extra |-> j.extra]
TraceScenarios == {ScOf(Trace[1].sc)}
E == Trace[l]
IsEv(name) == l <= Len(Trace) /\ E.ev = name /\ l' = l + 1
AsFun(x) == [i \in 1..NP |-> x[i]]

TCollected == IsEv("collected") /\ Len(E.inj) = NP /\ CollectWith(AsFun(E.inj))
TFiltered  == IsEv("filtered") /\ Filter /\ status' = "run" /\ inj' = AsFun(E.inj)
TEnd == /\ IsEv("end")
        /\ \/ phase = "filter" /\ Filter /\ status' # "run" /\ status' = E.status
           \/ phase = "inject" /\ Inject /\ status' = E.status /\ (E.status = "ok" => res' = AsFun(E.res))
TReset == /\ IsEv("scenario") /\ phase = "done"
          /\ LET s == ScOf(E.sc) IN
             /\ sc' = s /\ inj' = [i \in 1..Len(s.pts) |-> <<>>] /\ phase' = "collect"
             /\ status' = "run" /\ res' = [i \in 1..Len(s.pts) |-> Untouched(s)]
TraceInit == l = 2 /\ Init /\ first = NoFirst
TraceNext == (TCollected \/ TFiltered \/ TEnd \/ TReset) /\ UNCHANGED first
TraceSpec == TraceInit /\ [][TraceNext]_<<vars, l, first>>
Accepted == IF TLCGet("stats").diameter = Len(Trace) THEN TRUE
            ELSE Print(<<"REJECTED_AFTER_LINE", TLCGet("stats").diameter, "OF", Len(Trace)>>, FALSE)

\* ---- monitor: the state is assigned from the log; expectations are evaluated on what the code did
MStep ==
  /\ l <= Len(Trace) /\ l' = l + 1
  /\ IF E.ev = "scenario"
     THEN LET s == ScOf(E.sc) IN
          /\ sc' = s /\ inj' = [i \in 1..Len(s.pts) |-> <<>>] /\ phase' = "collect"
          /\ status' = "run" /\ res' = [i \in 1..Len(s.pts) |-> Untouched(s)]
     ELSE /\ UNCHANGED sc
          /\ inj' = IF E.ev \in {"collected", "filtered"} THEN AsFun(E.inj) ELSE inj
          /\ phase' = CASE E.ev = "collected" -> "filter" [] E.ev = "filtered" -> "inject" [] OTHER -> "done"
          /\ status' = IF E.ev = "end" THEN E.status ELSE status
          /\ res' = IF E.ev = "end" THEN AsFun(E.res) ELSE res
  \* remember the first run of a scenario; a header with the same population and points continues the group
  /\ first' = IF E.ev = "scenario" THEN (IF first.set /\ first.sc = ScOf(E.sc) THEN first ELSE NoFirst)
              ELSE IF E.ev = "end" /\ ~first.set THEN [set |-> TRUE, sc |-> sc, status |-> E.status, res |-> AsFun(E.res)]
              ELSE first
MonitorSpec == TraceInit /\ [][MStep]_<<vars, l, first>>
\* C10 as a direct cross-run comparison: every run of one scenario, whatever the registration / iteration /
\* property order, has the same status, and every point that is not genuinely tied has the same content
M_C10_SameOutcome ==
  (phase = "done" /\ first.set /\ first.sc = sc) =>
     /\ status = first.status
     /\ status = "ok" => \A i \in 1..NP :
           IF IsSlice(pts[i]) \/ IsArr(pts[i]) THEN SeqSet(res[i]) = SeqSet(first.res[i])
           ELSE \/ res[i] = first.res[i]
                \/ (Cardinality(TieSet(pts[i])) > 1 /\ SeqSet(res[i]) \subseteq TieSet(pts[i]) /\ Len(res[i]) = 1)
\* observable form of soundness that does not depend on status: whatever is in a field is compatible
M_FieldsSound == \A i \in 1..NP : \A p \in SeqSet(R(i)) : p \in Prov /\ p # H /\ Compat([pts[i] EXCEPT !.tag = "wire"], pop[p])
=============================================================================
