--------------------------- MODULE MCConfig ---------------------------
(* Every option sequence of up to MaxOpts options x loader kinds x documents over the leaf paths. *)
EXTENDS Config
CONSTANTS MaxOpts,
          AddLKs, SetLKs,   \* loader kinds offered to AddConfigLoader / SetConfigLoader
          Joins,            \* {FALSE} or BOOLEAN: variadic calls
          KeySets
\* (named sets for the configuration files: `KeySets <- KS3` ...)
KS3 == {{"a"}, {"a", "c.x"}, {}}
KS2 == {{"a"}, {"a", "c.x"}}
LKBuiltin == {"raw", "args", "file"}
LKOrdered == {"raw", "file", "ordm", "ordp", "priom", "markl"}     \* user-written ordered / priority loaders next to the built-in kinds
NoLK == {}
JoinNo == {FALSE}
JoinBoth == BOOLEAN
Vals == {1, 2}
Opts == [kind : {"add"}, lk : AddLKs, keys : KeySets, val : Vals, join : Joins]
        \cup [kind : {"set"}, lk : SetLKs, keys : KeySets, val : Vals, join : {FALSE}]
        \cup [kind : {"file"}, lk : {"file"}, keys : KeySets, val : Vals, join : {FALSE}]
InitOpt == [kind |-> "init", lk |-> "none", keys |-> {}, val |-> 0, join |-> FALSE]
\* a joined loader needs a variadic call before it
\* (marker values are interchangeable: the first option carries 1)
WellFormed(o) == /\ \A i \in 1..Len(o) : o[i].join => (i > 1 /\ o[i - 1].kind \in {"add", "set"})
                 /\ Len(o) > 0 => o[1].val = 1
\* ... and the same sequences with one Initialize in the middle (re-initialisation of a shared Configure)
WithInit(o, at) == [i \in 1..(Len(o) + 1) |-> IF i < at THEN o[i] ELSE IF i = at THEN InitOpt ELSE o[i - 1]]
MCInit == \/ \E n \in 0..MaxOpts : \E o \in [1..n -> Opts] : WellFormed(o) /\ InitWith([opts |-> o])
          \/ \E n \in 2..MaxOpts : \E o \in [1..n -> Opts] : \E at \in 2..n : WellFormed(WithInit(o, at)) /\ InitWith([opts |-> WithInit(o, at)])
=============================================================================
