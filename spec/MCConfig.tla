--------------------------- MODULE MCConfig ---------------------------
(* Every option sequence of up to MaxOpts options x loader kinds x documents over the leaf paths. *)
EXTENDS Config
CONSTANT MaxOpts
KeySets == {{"a"}, {"a", "b"}, {"b", "c.x"}, {"c.x", "c.y"}, {}}
Vals == {1, 2}
Opts == [kind : {"add", "set"}, lk : {"raw", "args"}, keys : KeySets, val : Vals] \cup [kind : {"file"}, lk : {"file"}, keys : KeySets, val : Vals]
MCInit == \E n \in 0..MaxOpts : \E o \in [1..n -> Opts] : InitWith([opts |-> o])
=============================================================================
