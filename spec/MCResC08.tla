--------------------------- MODULE MCResC08 ---------------------------
(* C08 family: qualifier sets and preference.  Holders with one to three points; "interferers"   *)
(* (optional points with no candidate, optional points whose qualifier matches nothing) are      *)
(* placed in front of the point under test.                                                      *)
EXTENDS MCResCommon
CONSTANT MaxPts
QPts == {Pt(k, "wire", 0, hq[1], hq[2], r) : k \in {"iface", "siface"}, hq \in Quals, r \in BOOLEAN}
        \cup {Pt("iface", "func", 0, hq[1], hq[2], r) : hq \in Quals, r \in BOOLEAN}
Interferers == {Pt("iface", "wire", -1, FALSE, {}, FALSE),       \* optional, absent name
                Pt("iface", "wire", 0, TRUE, {"g9"}, FALSE),      \* optional, qualifier matches nothing
                Pt("ptr", "wire", 0, FALSE, {}, FALSE),           \* optional pointer point (maybe no *PB)
                Pt("siface", "wire", 0, TRUE, {"g1"}, FALSE)}     \* optional qualified slice
PtLists == {<<a>> : a \in QPts} \cup {<<i, a>> : i \in Interferers, a \in QPts}
           \cup (IF MaxPts >= 3 THEN {<<i, a, b>> : i \in Interferers, a \in QPts, b \in QPts} ELSE {})
\* enumerated by nested quantification: building the set of scenario records first is far slower
MCInit == \E p \in Pops, l \in PtLists : InitWith([prov |-> p, pts |-> l, preset |-> FALSE, extra |-> FALSE])
=============================================================================
