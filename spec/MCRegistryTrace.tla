--------------------------- MODULE MCRegistryTrace ---------------------------
EXTENDS TraceRegistry
NameOfDef == [o \in {1, 2, 3, 4, 5, 6, 7} |-> CASE o \in {1, 2} -> "shared" [] o = 3 -> "own" [] o \in {6, 7} -> "zname" [] OTHER -> "plain"]
=============================================================================
