--------------------------- MODULE MCRegistryTrace ---------------------------
EXTENDS TraceRegistry
NameOfDef == [o \in {1, 2, 3, 4, 5} |-> CASE o \in {1, 2} -> "shared" [] o = 3 -> "own" [] OTHER -> "plain"]
=============================================================================
