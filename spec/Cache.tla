--------------------------- MODULE Cache ---------------------------
(***************************************************************************)
(* The three-level singleton registry of go-kid/ioc on its own            *)
(* (container/support/singleton_component_registry.go), driven by an       *)
(* ARBITRARY client that respects the factory's discipline (AddFactory     *)
(* only inside an open creation, no re-entrant creation of a name).        *)
(* Creations nest; factories and early-reference factories may fail.       *)
(*                                                                         *)
(* TLC enumerates complete call sequences and prints them (Export); the    *)
(* harness replays each into the real registry through its public          *)
(* interface, records results and table snapshots, and TraceCache.tla      *)
(* validates what the real registry did.                                   *)
(*                                                                         *)
(* CleanupOnError = TRUE is the repaired code (fix F4); FALSE is the code  *)
(* at the pinned commit.                                                   *)
(***************************************************************************)
EXTENDS Integers, Sequences, FiniteSets, TLC, Json

CONSTANTS Names, MaxOps, CleanupOnError
None == "none"

VARIABLES L1, L2, L3, inCr, open, runs, attempt, refs, hist
vars == <<L1, L2, L3, inCr, open, runs, attempt, refs, hist>>
\* open   : stack of names whose GetSingletonOrCreateByFactory is executing
\* runs   : [Names -> Nat] early references obtained in the current creation attempt
\* attempt: [Names -> Nat] creation attempts so far (names the values produced)
\* refs   : [Names -> set] what lookups returned for a name during its current attempt

Val(n, kind, k) == kind \o "-" \o ToString(n) \o "-" \o ToString(k)

Init ==
  /\ L1 = [n \in Names |-> None] /\ L2 = [n \in Names |-> None] /\ L3 = [n \in Names |-> FALSE]
  /\ inCr = {} /\ open = <<>> /\ runs = [n \in Names |-> 0] /\ attempt = [n \in Names |-> 0]
  /\ refs = [n \in Names |-> {}] /\ hist = <<>>

Log(op) == hist' = Append(hist, op)
Budget == Len(hist) < MaxOps
InOpen(n) == \E i \in 1..Len(open) : open[i] = n
Note(n, v) == refs' = IF InOpen(n) /\ v # None THEN [refs EXCEPT ![n] = @ \cup {v}] ELSE refs

\* GetSingleton(n, early); the early factory may succeed or fail (client's choice fok)
GetResult(n, early, fok) ==
  IF L1[n] # None THEN [res |-> L1[n], err |-> FALSE, ran |-> FALSE]
  ELSE IF L2[n] # None THEN [res |-> L2[n], err |-> FALSE, ran |-> FALSE]
  ELSE IF early /\ L3[n] THEN
       IF fok THEN [res |-> Val(n, "early", attempt[n] * 10 + runs[n] + 1), err |-> FALSE, ran |-> TRUE]
       ELSE [res |-> None, err |-> TRUE, ran |-> FALSE]
  ELSE [res |-> None, err |-> FALSE, ran |-> FALSE]
Get(n, early, fok) ==
  /\ Budget
  /\ LET r == GetResult(n, early, fok) IN
     /\ Log([op |-> "get", n |-> n, early |-> early, fok |-> fok, res |-> r.res, err |-> r.err])
     /\ runs' = IF r.ran THEN [runs EXCEPT ![n] = @ + 1] ELSE runs
     /\ L2' = IF r.ran THEN [L2 EXCEPT ![n] = r.res] ELSE L2
     /\ L3' = IF r.ran THEN [L3 EXCEPT ![n] = FALSE] ELSE L3
     /\ Note(n, r.res)
  /\ UNCHANGED <<L1, inCr, open, attempt>>

\* GetSingletonOrCreateByFactory(n, f): entry ...
CreateBegin(n) ==
  /\ Budget /\ ~InOpen(n) /\ L1[n] = None
  /\ inCr' = inCr \cup {n} /\ open' = Append(open, n)
  /\ attempt' = [attempt EXCEPT ![n] = @ + 1] /\ runs' = [runs EXCEPT ![n] = 0]
  /\ refs' = [refs EXCEPT ![n] = {}]
  /\ Log([op |-> "createBegin", n |-> n])
  /\ UNCHANGED <<L1, L2, L3>>
\* ... which returns the published instance at once when there is one
CreateHit(n) ==
  /\ Budget /\ ~InOpen(n) /\ L1[n] # None
  /\ Log([op |-> "createHit", n |-> n, res |-> L1[n]])
  /\ UNCHANGED <<L1, L2, L3, inCr, open, runs, attempt, refs>>

AddFactory ==
  /\ Budget /\ open # <<>>
  /\ LET n == open[Len(open)] IN
     /\ L3' = [L3 EXCEPT ![n] = TRUE]
     /\ Log([op |-> "addFactory", n |-> n])
  /\ UNCHANGED <<L1, L2, inCr, open, runs, attempt, refs>>

CreateEnd(ok) ==
  /\ Budget /\ open # <<>>
  /\ LET n == open[Len(open)]  v == Val(n, "final", attempt[n]) IN
     /\ open' = SubSeq(open, 1, Len(open) - 1)
     /\ IF ok THEN
          /\ inCr' = inCr \ {n} /\ L1' = [L1 EXCEPT ![n] = v]
          /\ L2' = [L2 EXCEPT ![n] = None] /\ L3' = [L3 EXCEPT ![n] = FALSE]
          /\ Log([op |-> "createEnd", n |-> n, ok |-> TRUE, res |-> v])
        ELSE
          /\ IF CleanupOnError
             THEN /\ inCr' = inCr \ {n} /\ L2' = [L2 EXCEPT ![n] = None] /\ L3' = [L3 EXCEPT ![n] = FALSE]
             ELSE UNCHANGED <<inCr, L2, L3>>
          /\ UNCHANGED L1
          /\ Log([op |-> "createEnd", n |-> n, ok |-> FALSE, res |-> None])
  /\ UNCHANGED <<runs, attempt, refs>>

IsInCr(n) ==
  /\ Budget /\ Log([op |-> "isInCr", n |-> n, res |-> (n \in inCr)])
  /\ UNCHANGED <<L1, L2, L3, inCr, open, runs, attempt, refs>>

\* RemoveSingleton(n) by the client, outside any creation of n
Remove(n) ==
  /\ Budget /\ ~InOpen(n)
  /\ L1' = [L1 EXCEPT ![n] = None] /\ L2' = [L2 EXCEPT ![n] = None] /\ L3' = [L3 EXCEPT ![n] = FALSE]
  /\ inCr' = inCr \ {n}
  /\ Log([op |-> "remove", n |-> n])
  /\ UNCHANGED <<open, runs, attempt, refs>>

WillRun(n, e) == L1[n] = None /\ L2[n] = None /\ e /\ L3[n]
Next == \/ \E n \in Names, e \in BOOLEAN, f \in BOOLEAN : (f => WillRun(n, e)) /\ Get(n, e, f)
        \/ \E n \in Names : IsInCr(n)
        \/ \E n \in Names : CreateBegin(n) \/ CreateHit(n) \/ Remove(n)
        \/ AddFactory \/ \E ok \in BOOLEAN : CreateEnd(ok)
Spec == Init /\ [][Next]_vars

\* ---- properties (C04)
C04_PublishedClean == \A n \in Names : L1[n] # None => (L2[n] = None /\ ~L3[n] /\ n \notin inCr)
C04_PublishedStable ==     \* only an explicit RemoveSingleton drops a published instance
  [][\A n \in Names : (L1[n] # None /\ (Len(hist') = Len(hist) \/ hist'[Len(hist')].op # "remove")) => L1'[n] = L1[n]]_vars
C04_EarlyOnce == \A n \in Names : runs[n] <= 1
C04_OneEarlyRef == \A n \in Names : Cardinality(refs[n]) <= 1
C04_CleanFailure == \A n \in Names : (~InOpen(n) /\ L1[n] = None) => (L2[n] = None /\ ~L3[n] /\ n \notin inCr)
C04_MarkedWhileOpen == \A n \in Names : InOpen(n) => n \in inCr

\* ---- export of complete call sequences (one JSON line per closed history of MaxOps calls)
Export == (Len(hist) = MaxOps /\ open = <<>>) => PrintT(<<"HIST", ToJson(hist)>>)
\* VIEW for exhaustive runs without export: the history is an observation variable
NoHist == <<L1, L2, L3, inCr, open, runs, attempt, refs, Len(hist)>>
=============================================================================
