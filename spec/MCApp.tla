--------------------------- MODULE MCApp ---------------------------
(* Constructive families for App.tla, enumerated by nested quantification in the initial predicate. *)
EXTENDS App
CONSTANTS MaxParts, Orders
SmallOrders == {-1, 0, 1}
P == [cls : Classes, ord : Orders] \cup {Marked}
PF == [cls : Classes, ord : Orders, fail : BOOLEAN] \cup {[cls |-> "mark", ord |-> 0, fail |-> f] : f \in BOOLEAN}
SeqsUpTo(S, n) == UNION {[1..k -> S] : k \in 0..n}
NoFailSeqs(S, n) == SeqsUpTo(S, n)
\* at most one failing participant
FailSeqs(n) == {s \in SeqsUpTo(PF, n) : Cardinality({i \in DOMAIN s : s[i].fail}) <= 1}
Sc(l, p, r, c, k, f) == [loaders |-> l, procs |-> p, runners |-> r, closers |-> c, comps |-> k, initFail |-> f, cycle |-> FALSE]
ScC(l, p, r, c, k, f, cy) == [loaders |-> l, procs |-> p, runners |-> r, closers |-> c, comps |-> k, initFail |-> f, cycle |-> cy]
\* C12: post-processor sequences (every multiset of up to MaxParts participants, in every registration order)
InitProcs == \E p \in SeqsUpTo(P, MaxParts), cy \in BOOLEAN : InitWith(ScC(<<>>, p, <<>>, <<>>, 1, 0, cy))
\* C12/C15: loader sequences with at most one failing loader
InitLoaders == \E l \in FailSeqs(MaxParts) : InitWith(Sc(l, <<>>, <<>>, <<>>, 0, 0))
\* C13/C09: runners with at most one failing, next to 0-2 components one of which may fail its Init, behind 0-1 loader
InitRunners == \E r \in FailSeqs(MaxParts), k \in 0..2, l \in FailSeqs(1) :
                 \E f \in 0..k : InitWith(Sc(l, <<>>, r, <<>>, k, f))
\* C14: 0-4 closers, every failing subset
InitClosers == \E n \in 0..4 : \E c \in [1..n -> [fail : BOOLEAN]] : InitWith(Sc(<<>>, <<>>, <<>>, c, 0, 0))
=============================================================================
