--------------------------- MODULE TraceApp ---------------------------
(***************************************************************************)
(* Validation of recorded App.Run / App.Close executions against App.tla.  *)
(* Events carry a global sequence number taken under one harness mutex     *)
(* inside the callback (after the effect, before returning).               *)
(*   TraceSpec   : conformance, every event is the matching App action.    *)
(*   MonitorSpec : the variables are assigned from the events; the         *)
(*                 property operators are evaluated on what the code did.  *)
(***************************************************************************)
EXTENDS App, Json, SequencesExt

CONSTANT TraceFile
Trace == ndJsonDeserialize(TraceFile)
VARIABLES l, aft, bad
\* aft : monitor only: number of after-init callbacks seen per component
\* bad : monitor only: an event that no component of the scenario could have produced, or a Close anomaly
E == Trace[l]
IsEv(name) == l <= Len(Trace) /\ E.ev = name /\ l' = l + 1

PartOf(j) == [cls |-> j.cls, ord |-> j.ord, fail |-> j.fail]
ScOf(j) == [loaders |-> [i \in 1..Len(j.loaders) |-> PartOf(j.loaders[i])],
            procs   |-> [i \in 1..Len(j.procs) |-> PartOf(j.procs[i])],
            runners |-> [i \in 1..Len(j.runners) |-> PartOf(j.runners[i])],
            closers |-> [i \in 1..Len(j.closers) |-> [fail |-> j.closers[i].fail]],
            comps |-> j.comps, initFail |-> j.initFail, cycle |-> j.cycle]
TraceScenarios == {ScOf(Trace[1].sc)}

TLoad == IsEv("load") /\ E.i \in 1..NL /\ E.ok = ~sc.loaders[E.i].fail /\ Load(E.i)
TEarly == IsEv("early") /\ E.p \in 1..NP /\ Early(E.p)
TBefore == IsEv("before") /\ E.c = ci /\ Before(E.p)
TInit == IsEv("init") /\ E.c = ci /\ E.ok = (sc.initFail # ci) /\ InitC
TAfter == IsEv("after") /\ E.c = ci /\ After(E.p)
TRun == IsEv("run") /\ E.i \in 1..NR /\ E.ok = ~sc.runners[E.i].fail /\ RunnerRun(E.i)
TRunReturn == IsEv("runReturn") /\ ~E.panic /\ RunReturn /\ E.ok = (status' = "ok")
\* the SAME App started a second time (fresh registry and factory, no components): nothing of the first start is invoked again -
\* there is no action between the two events, so a runner called by the second start is not a behaviour
TRestart == IsEv("restart") /\ status = "ok" /\ UNCHANGED vars
TRestartReturn == IsEv("restartReturn") /\ E.ok /\ UNCHANGED vars
TCloseBegin == IsEv("closeBegin") /\ CloserBegin(E.j)
TCloseEnd == IsEv("closeEnd") /\ CloserEnd(E.j)
TCloseReturn == IsEv("closeReturn") /\ CloseReturn
ResetTo(s) ==
  /\ sc' = s /\ loaded' = <<>> /\ ci' = 1 /\ stage' = FirstStage(s) /\ pdone' = <<>> /\ ran' = <<>>
  /\ status' = "run" /\ cst' = [j \in 1..Len(s.closers) |-> "idle"] /\ closeRet' = FALSE
  /\ initCnt' = [c \in 1..s.comps |-> 0] /\ early' = <<>>
TReset == IsEv("scenario") /\ ResetTo(ScOf(E.sc))
TraceInit == l = 2 /\ Init /\ aft = [c \in 1..K |-> 0] /\ bad = FALSE
TraceNext == (TLoad \/ TRestart \/ TRestartReturn \/ TEarly \/ TBefore \/ TInit \/ TAfter \/ TRun \/ TRunReturn \/ TCloseBegin \/ TCloseEnd \/ TCloseReturn \/ TReset)
             /\ UNCHANGED <<aft, bad>>
TraceSpec == TraceInit /\ [][TraceNext]_<<vars, l, aft, bad>>
Accepted == IF TLCGet("stats").diameter = Len(Trace) THEN TRUE
            ELSE Print(<<"REJECTED_AFTER_LINE", TLCGet("stats").diameter, "OF", Len(Trace)>>, FALSE)

\* ------------------------------------------------------------------ monitor
Same(c, st) == ci = c /\ stage = st
MStep ==
  /\ l <= Len(Trace) /\ l' = l + 1
  /\ IF E.ev = "scenario" THEN ResetTo(ScOf(E.sc)) /\ aft' = [c \in 1..E.sc.comps |-> 0] /\ bad' = FALSE
     ELSE
     /\ UNCHANGED sc
     /\ loaded' = IF E.ev = "load" THEN Append(loaded, E.i) ELSE loaded
     /\ ci' = IF E.ev \in {"before", "init", "after"} THEN E.c ELSE ci
     /\ stage' = IF E.ev \in {"before", "init", "after"} THEN E.ev ELSE stage
     /\ pdone' = IF E.ev \in {"before", "after"} THEN (IF Same(E.c, E.ev) THEN Append(pdone, E.p) ELSE <<E.p>>)
                 ELSE IF E.ev = "init" THEN <<>> ELSE pdone
     /\ initCnt' = IF E.ev = "init" /\ E.c \in 1..K THEN [initCnt EXCEPT ![E.c] = @ + 1] ELSE initCnt
     /\ aft' = IF E.ev = "after" /\ E.c \in 1..K THEN [aft EXCEPT ![E.c] = @ + 1] ELSE aft
     /\ ran' = IF E.ev = "run" THEN Append(ran, E.i) ELSE ran
     /\ early' = IF E.ev = "early" THEN Append(early, E.p) ELSE early
     /\ status' = IF E.ev = "runReturn" THEN (IF E.panic THEN "panic" ELSE IF E.ok THEN "ok" ELSE "err")
                  ELSE IF (E.ev \in {"load", "init", "run"} /\ ~E.ok) THEN "failed" ELSE status
     /\ cst' = IF E.ev = "closeBegin" /\ E.j \in 1..NC THEN [cst EXCEPT ![E.j] = "begun"]
               ELSE IF E.ev = "closeEnd" /\ E.j \in 1..NC THEN [cst EXCEPT ![E.j] = "ended"] ELSE cst
     /\ closeRet' = (closeRet \/ E.ev = "closeReturn")
     /\ bad' = (bad \/ (E.ev = "closeBegin" /\ (E.j \notin 1..NC \/ cst[E.j] # "idle"))      \* a closer invoked twice
                    \/ (E.ev = "closeEnd" /\ (E.j \notin 1..NC \/ cst[E.j] # "begun"))
                    \/ E.ev = "closeHang"
                    \/ (E.ev \in {"run", "load", "init"} /\ status \in {"ok", "err"})       \* a callback of a start that has already returned
                    \/ (E.ev = "restartReturn" /\ ~E.ok)
                    \/ (E.ev \in {"before", "after"} /\ (E.c \notin 1..K \/ E.p \notin 1..NP))
                    \/ (E.ev = "run" /\ E.i \notin 1..NR) \/ (E.ev = "load" /\ E.i \notin 1..NL))
MonitorSpec == TraceInit /\ [][MStep]_<<vars, l, aft, bad>>

M_WellFormed == ~bad
\* C12 at the three call sites: what was invoked so far is a prefix of a sorted permutation, and complete at the end
M_C12_ProcsComplete ==
  [][(E.ev = "init" /\ NP > 0) => IsSortedPerm(pdone, sc.procs)]_<<vars, l, aft, bad>>       \* all before-callbacks ran, in order
\* the early-reference callbacks: in the contract's sequence (C12_Early on every state), and all of them before the first Init
M_C12_EarlyComplete == (sc.cycle /\ K >= 1 /\ initCnt[1] > 0) => IsSortedPerm(early, sc.procs)
M_C12_AfterComplete == \A c \in 1..K : (status \in {"ok"} => aft[c] = NP)
M_C12_LoadersComplete == (status = "ok") => IsSortedPerm(loaded, sc.loaders)
M_C13_AllRunners == (status = "ok") => IsSortedPerm(ran, sc.runners)
M_C13_AfterReady == ran # <<>> => \A c \in 1..K : initCnt[c] = 1 /\ aft[c] = NP
M_C09_NoPanic == status # "panic"
M_C14_ClosedAll == closeRet => \A j \in 1..NC : cst[j] = "ended"
\* observable form of C14_Isolation: the harness holds every closer on a gate and opens the first one only when all closers have been
\* invoked (or after 3 s): when the first Close call returns, no closer is still waiting to be invoked behind the slow ones
M_C14_Isolation == [][(E.ev = "closeEnd") => \A j \in 1..NC : cst[j] # "idle"]_<<vars, l, aft, bad>>
=============================================================================
