--------------------------- MODULE MCEngT ---------------------------
(* Family T ("late"): every graph over single-valued points and OPTIONAL slice points, where every subset of the holders  *)
(* that have a slice point gets it served by a user-written collector running after further matching (sc.late): the       *)
(* holder is among its own candidates when the graph lists it, and a wrap mode decides what its own early reference is.   *)
EXTENDS Container
AllFalse == [n \in Node |-> FALSE]
AllTrue == [n \in Node |-> TRUE]
NoFail == [n \in Node |-> "none"]
CONSTANT WModes
FamAll == {[single |-> g, selfOpt |-> AllFalse, slice |-> h, sliceOpt |-> AllTrue, lazy |-> {},
         wrap |-> w, fail |-> NoFail, procs |-> <<>>, mode |-> [n \in Node |-> "normal"], rorder |-> <<>>, ilook |-> NoLook,
         late |-> [n \in Node |-> n \in lt]] :
           g \in [Node -> SUBSET Node], h \in [Node -> SUBSET Node], w \in [Node -> WModes], lt \in SUBSET {n \in Node : TRUE}}
Fam == {s \in FamAll : \A n \in Node : s.late[n] => s.slice[n] # {}}
=============================================================================
