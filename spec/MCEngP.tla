--------------------------- MODULE MCEngP ---------------------------
(* Family P: user post-processors that are components themselves (eager or LazyInit, 0-2 of them) next to every *)
(* single-edge graph x every lazy subset: the eager ones are initialised exactly once before the refresh, the     *)
(* lazy ones never (nothing needs them).                                                                            *)
EXTENDS Container
AllFalse == [n \in Node |-> FALSE]
NoWrap == [n \in Node |-> "none"]
NoFail == [n \in Node |-> "none"]
Empty == [n \in Node |-> {}]
Fam == {[single |-> g, selfOpt |-> AllFalse, slice |-> Empty, sliceOpt |-> AllFalse, lazy |-> lz, wrap |-> NoWrap, fail |-> NoFail, procs |-> ps, mode |-> [n \in Node |-> "normal"], rorder |-> <<>>, ilook |-> NoLook] :
          g \in [Node -> SUBSET Node], lz \in SUBSET Node, ps \in UNION {[1..k -> BOOLEAN] : k \in 0..2}}
=============================================================================
