--------------------------- MODULE MCScan ---------------------------
(* Every shape of the bounded family below; ids are assigned in preorder by the harness/export (Number).        *)
EXTENDS Scan, Json, SequencesExt
CONSTANTS OutFile, Depth
LeafTags == {"none", "value", "prop", "cust", "foreign", "prefix", "wire", "func", "logger"}
Leaf(t, e) == [k |-> "leaf", tag |-> t, anon |-> FALSE, ptr |-> FALSE, exp |-> e, kids |-> <<>>, id |-> 0]
Str(a, t, p, e, ks) == [k |-> "struct", tag |-> t, anon |-> a, ptr |-> p, exp |-> e, kids |-> ks, id |-> 0]
Leaves == {Leaf(t, TRUE) : t \in LeafTags}
\* the compile-time block: a struct with an unexported tagged field and an exported tagged field
BlkKids == <<Leaf("value", FALSE), Leaf("value", TRUE)>>
CoreLeaves == {Leaf(t, TRUE) : t \in {"none", "value", "prop", "cust", "foreign"}}
Kids1 == {<<a>> : a \in Leaves} \cup {<<a, b>> : a \in CoreLeaves, b \in {Leaf("value", TRUE), Leaf("none", TRUE), Leaf("cust", TRUE), Leaf("wire", TRUE)}} \cup {BlkKids}
S1 == {Str(a, t, p, TRUE, ks) : a \in BOOLEAN, t \in {"none", "cust", "foreign"}, p \in BOOLEAN, ks \in Kids1}
      \cup {Str(TRUE, "none", FALSE, FALSE, BlkKids)}                         \* an embed of an unexported type
S1core == {s \in S1 : s.tag = "none" /\ ~s.ptr /\ s.exp}
Kids2 == {<<s>> : s \in S1core} \cup {<<Leaf("value", TRUE), s>> : s \in S1core}
S2 == IF Depth >= 3 THEN {Str(a, "none", FALSE, TRUE, ks) : a \in BOOLEAN, ks \in Kids2} ELSE {}
AnyField == Leaves \cup S1 \cup S2
Roots == {<<x>> : x \in AnyField} \cup {<<Leaf("value", TRUE), x>> : x \in AnyField} \cup {<<x, Leaf("prop", TRUE)>> : x \in AnyField}
\* preorder numbering
RECURSIVE Number(_, _)
Number(fs, n) ==      \* returns [fs, n]
  IF fs = <<>> THEN [fs |-> <<>>, n |-> n]
  ELSE LET f == fs[1]
           kk == Number(f.kids, n + 1)
           rest == Number(Tail(fs), kk.n) IN
       [fs |-> <<[f EXCEPT !.id = n, !.kids = kk.fs]>> \o rest.fs, n |-> rest.n]
Numbered == {Number(r, 1).fs : r \in Roots}
ASSUME ndJsonSerialize(OutFile, SetToSeq({[shape |-> s] : s \in Numbered}))
MCInit == \E s \in Numbered : InitWith(s)
=============================================================================
