--------------------------- MODULE Resolve ---------------------------
(***************************************************************************)
(* Candidate resolution for the injection points of ONE holder component:  *)
(* collection by type / interface / name / method (DependencyAware and     *)
(* DependencyFunctionAware processors, Order 2), narrowing by qualifier    *)
(* and preference (DependencyFurtherMatching, Order 4), and injection      *)
(* (factory.populateComponent + Property.Inject: self filter, assignment). *)
(*                                                                         *)
(* Code anchors: container/processors/dependency_aware_post_processors.go, *)
(*   dependency_function_aware_post_processors.go,                         *)
(*   dependency_further_matching_processors.go, container/options.go,      *)
(*   component_definition/property.go, container/factory/factory.go.       *)
(*                                                                         *)
(* One action per observable stage (the harness has observers at Order 3   *)
(* and 5 that read Property.Injects, and reads the fields at the end).     *)
(* Interface / qualifier method / Primary / methods are attributes of the  *)
(* Go TYPE (table TA = the harness's pool), name and qualifier string are  *)
(* attributes of the instance.  Provider 1 is the holder.                  *)
(*                                                                         *)
(* FixF1/FixF2/FixF3/FixF13 = TRUE model the repaired code; FALSE the      *)
(* pinned one.                                                             *)
(* sc.extra: the container's second, public by-type collector              *)
(* (processors.NewDependencyTypeAwarePostProcessors) is registered next to *)
(* the default one: every by-type wire point is then served twice, and the *)
(* further-matching step keeps the first occurrence of each candidate      *)
(* (fix F13; the pinned code injected every component twice into slices).  *)
(***************************************************************************)
EXTENDS Integers, Sequences, FiniteSets, TLC

CONSTANTS Scenarios, FixF1, FixF2, FixF3, FixF13

H == 1        \* the holder
NIL == 0      \* a nil *Meta in Property.Injects

\* (kind = what Kind() string returns, "" if the type has no such method: types 4 7 -> "A", 5 14 -> "B"; func points may
\*  carry returns=...: the method is called and its result compared; "*" accepts any result)
\* (hasT = has Tick() without results: a second method name for func points: types 4 8 12 13 16)
\* pool types: i1 = implements RI, hasQ = has Qualifier(), prim = has Primary(), hasM = has Mark() without
\* results, outM = has Mark() WITH a result (must not match func:"Mark"), pb = is the pointer type *PB
T(i1, hasQ, prim, hasM, outM, pb, hasT, kind) == [i1 |-> i1, hasQ |-> hasQ, prim |-> prim, hasM |-> hasM, outM |-> outM, pb |-> pb, hasT |-> hasT, kind |-> kind]
TA == <<T(FALSE, FALSE, FALSE, FALSE, FALSE, FALSE, FALSE, ""),   \* 1  PA   plain
        T(TRUE,  FALSE, FALSE, FALSE, FALSE, TRUE, FALSE, ""),    \* 2  PB   RI        (the pointer-typed points are *PB)
        T(TRUE,  TRUE,  FALSE, FALSE, FALSE, FALSE, FALSE, ""),   \* 3  PC   RI Q
        T(TRUE,  FALSE, TRUE,  FALSE, FALSE, FALSE, TRUE, "A"),   \* 4  PD   RI Primary
        T(TRUE,  TRUE,  TRUE,  FALSE, FALSE, FALSE, FALSE, "B"),   \* 5  PE   RI Q Primary
        T(FALSE, TRUE,  FALSE, FALSE, FALSE, FALSE, FALSE, ""),   \* 6  PF   Q
        T(TRUE,  FALSE, FALSE, TRUE,  FALSE, FALSE, FALSE, "A"),   \* 7  PM   RI Mark()
        T(TRUE,  TRUE,  FALSE, TRUE,  FALSE, FALSE, TRUE, ""),   \* 8  PQM  RI Q Mark()
        T(FALSE, FALSE, FALSE, FALSE, FALSE, FALSE, FALSE, ""),   \* 9  HN   holder, plain
        T(TRUE,  FALSE, FALSE, FALSE, FALSE, FALSE, FALSE, ""),   \* 10 HI   holder, RI
        T(TRUE,  TRUE,  FALSE, TRUE,  FALSE, FALSE, FALSE, ""),   \* 11 HQM  holder, RI Q Mark()
        T(FALSE, FALSE, FALSE, TRUE,  FALSE, FALSE, TRUE, ""),   \* 12 PG   Mark() only
        T(TRUE,  FALSE, FALSE, FALSE, TRUE,  FALSE, TRUE, ""),   \* 13 PO   RI, Mark() int
        T(TRUE,  FALSE, TRUE,  TRUE,  FALSE, FALSE, FALSE, "B"),   \* 14 PDM  RI Primary Mark()
        T(TRUE,  FALSE, FALSE, FALSE, FALSE, FALSE, FALSE, ""),   \* 15 PZ1  RI, a field-less (zero-size) struct: cannot carry a custom name
        T(TRUE,  FALSE, FALSE, TRUE,  FALSE, FALSE, TRUE, ""),   \* 16 PZ2  RI Mark(), field-less too (Go gives all zero-size objects one address)
        T(TRUE,  FALSE, TRUE,  FALSE, FALSE, FALSE, FALSE, ""),  \* 17 PZP  RI Primary, field-less
        T(TRUE,  TRUE,  FALSE, FALSE, FALSE, FALSE, FALSE, "")>> \* 18 PZQ  RI Q, field-less (its qualifier is the constant "g1")

VARIABLES sc, inj, phase, status, res
vars == <<sc, inj, phase, status, res>>

pop == sc.prov
pts == sc.pts
Prov == 1..Len(pop)
NP == Len(pts)
IsSlice(pt) == pt.kind \in {"siface", "sptr"}
\* ARRAY-typed points ([2]RI, [1]*PB): the collectors serve pointers, interfaces and slices of them only, so an array point never
\* receives anything: optional -> it stays as it is, required -> start-up fails with an error (never a panic)
IsArr(pt) == pt.kind \in {"aiface", "aptr"}
\* sc.preset: every point's field holds a sentinel (not a registered component) before the start; a point that receives nothing
\* is left UNTOUCHED, i.e. still holds it afterwards
Sentinel == 99
Untouched(s) == IF s.preset THEN <<Sentinel>> ELSE <<>>

\* type compatibility of provider attributes a with point pt (what the collectors select by type)
Compat(pt, a) ==
  LET t == TA[a.ty]
      byKind == CASE pt.kind \in {"ptr", "sptr"} -> t.pb
                  [] pt.kind \in {"iface", "siface"} -> t.i1
                  [] pt.kind = "any" -> TRUE
                  [] IsArr(pt) -> FALSE
      byFunc == CASE pt.fn = "Tick" -> t.hasT
                  [] pt.fn = "Kind" -> \* without returns the method must have no result, so Kind() never matches; with returns it is called
                                       pt.ret # {} /\ t.kind # "" /\ ("*" \in pt.ret \/ t.kind \in pt.ret)
                  [] OTHER -> t.hasM
  IN IF pt.tag = "func" THEN byKind /\ byFunc ELSE byKind
CompatSet(pt) == {p \in Prov : Compat(pt, pop[p])}
Perms(S) == {s \in [1..Cardinality(S) -> S] : \A i, j \in 1..Cardinality(S) : i # j => s[i] # s[j]}
\* the members of S in the order given by the permutation o of Prov
InOrder(o, S) == SelectSeq(o, LAMBDA p : p \in S)

InitWith(s) ==
  /\ sc = s
  /\ inj = [i \in 1..Len(s.pts) |-> <<>>]
  /\ phase = "collect" /\ status = "run"
  /\ res = [i \in 1..Len(s.pts) |-> Untouched(s)]
Init == \E s \in Scenarios : InitWith(s)

\* ---------------------------------------------------------------- collection (Order 2)
\* what the collectors may put into Property.Injects for a point (order = registry iteration order)
CollectChoices(pt) ==
  IF pt.tag = "func" THEN Perms(CompatSet(pt))
  ELSE IF pt.byName = 0 THEN (IF pt.kind = "any" THEN {<<>>} ELSE Perms(CompatSet(pt)))
  ELSE IF IsSlice(pt) \/ IsArr(pt) THEN {<<>>}     \* a name on a slice / array point is ignored
  ELSE IF pt.byName = -1 THEN {<<NIL>>}             \* GetMetaByName finds nothing: a nil is recorded
  ELSE IF FixF2 /\ ~Compat(pt, pop[pt.byName]) THEN {<<NIL>>}
  ELSE {<<pt.byName>>}
\* with the second public collector registered (sc.extra) a by-type wire point is served twice, in the same registry order
\* (stated as a predicate: TLC decides membership in Perms(S) without enumerating it)
Doubled(pt) == sc.extra /\ pt.tag = "wire" /\ pt.byName = 0 /\ pt.kind # "any"
CollectOK(pt, x) ==
  IF Doubled(pt) THEN LET n == Cardinality(CompatSet(pt)) IN
                      Len(x) = 2 * n /\ SubSeq(x, 1, n) \in Perms(CompatSet(pt)) /\ x = SubSeq(x, 1, n) \o SubSeq(x, 1, n)
  ELSE x \in CollectChoices(pt)
\* EVENT collected
CollectWith(f) ==
  /\ phase = "collect" /\ status = "run"
  /\ \A i \in 1..NP : CollectOK(pts[i], f[i])
  /\ inj' = f /\ phase' = "filter"
  /\ UNCHANGED <<sc, status, res>>
Collect == \E o \in Perms(Prov) :
             CollectWith([i \in 1..NP |->
                LET pt == pts[i] IN
                IF pt.tag = "func" THEN InOrder(o, CompatSet(pt))
                ELSE IF pt.byName = 0 /\ pt.kind # "any" THEN (IF sc.extra THEN InOrder(o, CompatSet(pt)) \o InOrder(o, CompatSet(pt)) ELSE InOrder(o, CompatSet(pt)))
                ELSE CHOOSE s \in CollectChoices(pt) : TRUE])

\* ---------------------------------------------------------------- further matching (Order 4)
QualOK(pt, a) == TA[a.ty].hasQ /\ a.q \in pt.q
Prefer(s) ==      \* first Primary, else last component without a custom name, else the first
  LET prim == {i \in 1..Len(s) : TA[pop[s[i]].ty].prim}
      unnamed == {i \in 1..Len(s) : ~pop[s[i]].named} IN
  IF prim # {} THEN s[CHOOSE i \in prim : \A j \in prim : i <= j]
  ELSE IF unnamed # {} THEN s[CHOOSE i \in unnamed : \A j \in unnamed : i >= j]
  ELSE s[1]
SelfOut(s) == SelectSeq(s, LAMBDA p : p # H)
\* first occurrences only
RECURSIVE Dedup(_)
Dedup(s) == IF s = <<>> THEN <<>> ELSE LET r == Dedup(SubSeq(s, 1, Len(s) - 1)) IN
                                     IF \E i \in 1..Len(r) : r[i] = s[Len(s)] THEN r ELSE Append(r, s[Len(s)])

\* the loop of PostProcessProperties over the holder's properties, from index i with Injects = cur
RECURSIVE FilterFrom(_, _)
FilterFrom(i, cur) ==
  IF i > NP THEN [inj |-> cur, status |-> "run"]
  ELSE LET pt == pts[i]
           s00 == SelectSeq(cur[i], LAMBDA p : p # NIL)
           s0 == IF FixF13 THEN Dedup(s00) ELSE s00
           s0b == IF FixF3 THEN SelfOut(s0) ELSE s0
           s1 == IF ~pt.hasQ THEN s0b ELSE SelectSeq(s0b, LAMBDA p : QualOK(pt, pop[p]))
           miss == s0 = <<>> \/ s0b = <<>> \/ s1 = <<>>
           s2 == IF Len(s1) > 1 /\ ~IsSlice(pt) THEN <<Prefer(s1)>> ELSE s1
       IN IF miss THEN
             IF pt.req THEN [inj |-> cur, status |-> "err"]
             ELSE IF FixF1 THEN FilterFrom(i + 1, [cur EXCEPT ![i] = <<>>])
                  ELSE [inj |-> cur, status |-> "run"]       \* pinned code: return leaves the rest as collected
          ELSE FilterFrom(i + 1, [cur EXCEPT ![i] = s2])
\* EVENT filtered (or the start-up error it produces)
Filter ==
  /\ phase = "filter" /\ status = "run"
  /\ LET r == FilterFrom(1, inj) IN
     /\ inj' = r.inj /\ status' = r.status
     /\ phase' = IF r.status = "run" THEN "inject" ELSE "done"
  /\ UNCHANGED <<sc, res>>

\* ---------------------------------------------------------------- population
RECURSIVE InjectFrom(_, _)
InjectFrom(i, cur) ==
  IF i > NP THEN [res |-> cur, status |-> "ok"]
  ELSE LET pt == pts[i]  s == inj[i] IN
       IF s = <<>> THEN InjectFrom(i + 1, cur)
       ELSE IF \E j \in 1..Len(s) : s[j] = NIL THEN [res |-> cur, status |-> "panic"]   \* nil Meta dereferenced
       ELSE LET k == SelfOut(s) IN
            IF k = <<>> THEN (IF pt.req THEN [res |-> cur, status |-> "err"] ELSE InjectFrom(i + 1, cur))
            ELSE IF IsSlice(pt) THEN InjectFrom(i + 1, [cur EXCEPT ![i] = k])
            ELSE IF ~Compat([pt EXCEPT !.tag = "wire"], pop[k[1]]) THEN [res |-> cur, status |-> "panic"]  \* reflect.Set panics
            ELSE InjectFrom(i + 1, [cur EXCEPT ![i] = <<k[1]>>])
\* EVENT end
Inject ==
  /\ phase = "inject" /\ status = "run"
  /\ LET r == InjectFrom(1, res) IN res' = r.res /\ status' = r.status
  /\ phase' = "done"
  /\ UNCHANGED <<sc, inj>>

Next == Collect \/ Filter \/ Inject
Spec == Init /\ [][Next]_vars

\* ================================================================== expectations (order free)
\* the components an injection point may receive, as a function of point and population only
Cands(pt) ==
  LET base == IF pt.tag = "func" THEN CompatSet(pt)
              ELSE IF pt.byName = 0 THEN (IF pt.kind = "any" THEN {} ELSE CompatSet(pt))
              ELSE IF pt.byName = -1 \/ IsSlice(pt) \/ IsArr(pt) THEN {}
              ELSE IF Compat(pt, pop[pt.byName]) THEN {pt.byName} ELSE {}
      q == IF ~pt.hasQ THEN base ELSE {p \in base : QualOK(pt, pop[p])}
  IN q \ {H}
TieSet(pt) ==
  LET c == Cands(pt)
      prim == {p \in c : TA[pop[p].ty].prim}
      unnamed == {p \in c : ~pop[p].named} IN
  IF prim # {} THEN prim ELSE IF unnamed # {} THEN unnamed ELSE c
SeqSet(s) == {s[i] : i \in 1..Len(s)}
\* what a point RECEIVED: an untouched preset field received nothing
R(i) == IF sc.preset /\ res[i] = <<Sentinel>> THEN <<>> ELSE res[i]
Done == phase = "done"
ExpectedOK == \A i \in 1..NP : pts[i].req => Cands(pts[i]) # {}

\* C06: sound and complete by type
\* (p \in Prov: whatever is in the field after a successful start is a registered component - not, say, what the field held before)
C06_Sound == status = "ok" => \A i \in 1..NP : \A p \in SeqSet(R(i)) : p \in Prov /\ Compat(pts[i], pop[p]) /\ p # H
C06_CompleteSlice ==
  status = "ok" => \A i \in 1..NP : (IsSlice(pts[i]) /\ ~pts[i].hasQ /\ pts[i].byName = 0) =>
      (SeqSet(R(i)) = Cands(pts[i]) /\ Len(R(i)) = Cardinality(Cands(pts[i])))
C06_SingleOne ==
  status = "ok" => \A i \in 1..NP : (~IsSlice(pts[i]) /\ Cands(pts[i]) # {}) =>
      (Len(R(i)) = 1 /\ R(i)[1] \in Cands(pts[i]))
\* C07: by name
ByNamePoint(pt) == pt.tag = "wire" /\ pt.byName # 0 /\ ~IsSlice(pt) /\ ~IsArr(pt)
C07_Exactly ==
  status = "ok" => \A i \in 1..NP : ByNamePoint(pts[i]) =>
      IF Cands(pts[i]) # {} THEN R(i) = <<pts[i].byName>> ELSE R(i) = <<>>
C07_MissingFails ==
  Done => \A i \in 1..NP : (ByNamePoint(pts[i]) /\ Cands(pts[i]) = {} /\ pts[i].req) => status = "err"
\* ... and a point that receives nothing is left untouched: a field that held something before the start still holds it
C07_Untouched == status = "ok" => \A i \in 1..NP : Cands(pts[i]) = {} => res[i] = Untouched(sc)
\* C08: qualifier and preference, per field
C08_Qualifier ==
  status = "ok" => \A i \in 1..NP : pts[i].hasQ => \A p \in SeqSet(R(i)) : p \in Prov /\ QualOK(pts[i], pop[p])
C08_Preference ==
  status = "ok" => \A i \in 1..NP : (~IsSlice(pts[i]) /\ R(i) # <<>>) => R(i)[1] \in TieSet(pts[i])
PointOK(i) ==
  LET pt == pts[i] IN
  IF Cands(pt) = {} THEN R(i) = <<>>
  ELSE IF IsSlice(pt) THEN SeqSet(R(i)) = Cands(pt) /\ Len(R(i)) = Cardinality(Cands(pt))
  ELSE Len(R(i)) = 1 /\ R(i)[1] \in TieSet(pt)
C08_Independent == status = "ok" => \A i \in 1..NP : PointOK(i)
\* C09: clean failure
C09_NoPanic == status # "panic"
C09_RequiredFails == Done => ((\E i \in 1..NP : pts[i].req /\ Cands(pts[i]) = {}) => status = "err")
C09_OptionalHarmless == Done => (ExpectedOK => status = "ok")
\* C10: the outcome is a function of the scenario, not of the order
C10_Status == Done => (status = "ok" <=> ExpectedOK)
C10_Point == C08_Independent
=============================================================================
