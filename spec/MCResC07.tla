--------------------------- MODULE MCResC07 ---------------------------
(* C07 family: by-name points (absent name, the holder's own name, each provider) of every kind, *)
(* required and optional, alone or behind / in front of a by-type point; populations mix custom  *)
(* and default names and types that are not assignable to the point.                             *)
EXTENDS MCResCommon
Names == {-1} \cup (1..(NProvs + 1))
NamePts == {Pt(k, "wire", bn, hq[1], hq[2], r) : k \in {"iface", "ptr", "any", "siface"}, bn \in Names,
                                                 hq \in {<<FALSE, {}>>, <<TRUE, {"g1"}>>}, r \in BOOLEAN}
Others == {Pt("iface", "wire", 0, FALSE, {}, FALSE), Pt("siface", "wire", 0, FALSE, {}, TRUE)}
PtLists == {<<a>> : a \in NamePts} \cup {<<a, b>> : a \in NamePts, b \in Others} \cup {<<b, a>> : a \in NamePts, b \in Others}
\* enumerated by nested quantification: building the set of scenario records first is far slower
MCInit == \E p \in Pops, l \in PtLists, pre \in BOOLEAN : InitWith([prov |-> p, pts |-> l, preset |-> pre, extra |-> FALSE])
=============================================================================
