--------------------------- MODULE MCEngS ---------------------------
(* Family S: single-valued points only, every digraph (self loops included), optional flags off. *)
(* Small enough per graph to carry the liveness property (Termination) at N = 4.                 *)
EXTENDS Container
AllFalse == [n \in Node |-> FALSE]
NoWrap == [n \in Node |-> "none"]
NoFail == [n \in Node |-> "none"]
Empty == [n \in Node |-> {}]
Fam == {[single |-> g, selfOpt |-> AllFalse, slice |-> Empty, sliceOpt |-> AllFalse, lazy |-> {},
         wrap |-> NoWrap, fail |-> NoFail, procs |-> <<>>, mode |-> [n \in Node |-> "normal"], rorder |-> <<>>, ilook |-> NoLook] : g \in [Node -> SUBSET Node]}
FamNoSelf == {s \in Fam : \A n \in Node : n \notin s.single[n]}
=============================================================================
