--------------------------- MODULE MCResCommon ---------------------------
(* Building blocks for the constructive scenario families of Resolve.tla.                        *)
EXTENDS Resolve
CONSTANTS NProvs,      \* number of providers next to the holder
          ProvTypes,   \* pool types the providers are drawn from
          HolderTypes  \* pool types of the holder (9 plain, 10 RI, 11 RI+Q+Mark)
QOf(ty) == IF TA[ty].hasQ THEN {"g1", "g2"} ELSE {"-"}
Attr(tys) == UNION {[ty : {t}, named : BOOLEAN, q : QOf(t)] : t \in tys}
\* default names collide: at most one component without a custom name per type
NameOK(f) == \A a, b \in DOMAIN f : (a # b /\ ~f[a].named /\ ~f[b].named) => f[a].ty # f[b].ty
Pops == {<<h>> \o p : h \in Attr(HolderTypes), p \in {x \in [1..NProvs -> Attr(ProvTypes)] : NameOK(x)}}
Pt(kind, tag, bn, hasQ, q, req) == [kind |-> kind, tag |-> tag, byName |-> bn, hasQ |-> hasQ, q |-> q, req |-> req, fn |-> "Mark", ret |-> {}]
PtF(kind, fn, req) == [kind |-> kind, tag |-> "func", byName |-> 0, hasQ |-> FALSE, q |-> {}, req |-> req, fn |-> fn, ret |-> {}]
PtK(kind, ret, req) == [kind |-> kind, tag |-> "func", byName |-> 0, hasQ |-> FALSE, q |-> {}, req |-> req, fn |-> "Kind", ret |-> ret]
Quals == {<<FALSE, {}>>, <<TRUE, {"g1"}>>, <<TRUE, {"g1", "g2"}>>, <<TRUE, {"g9"}>>}
=============================================================================
