--------------------------- MODULE TraceRegistry ---------------------------
(* What the REAL singleton registry did when the harness replayed TLC-generated registration sequences.       *)
EXTENDS Registry, SequencesExt
CONSTANT TraceFile
Trace == ndJsonDeserialize(TraceFile)
VARIABLE l
E == Trace[l]
IsEv(name) == l <= Len(Trace) /\ E.op = name /\ l' = l + 1
LastH == hist'[Len(hist')]
TRegister == IsEv("register") /\ Register(E.o) /\ LastH.res = E.res /\ E.names = Cardinality({n \in Names : reg'[n] # None})
TGet == IsEv("get") /\ Get(E.n) /\ LastH.o = E.o
TReset == IsEv("hist") /\ reg' = [n \in Names |-> None] /\ hist' = <<>>
TraceInit == l = 2 /\ Init
TraceNext == TRegister \/ TGet \/ TReset
TraceSpec == TraceInit /\ [][TraceNext]_<<vars, l>>
\* monitor: reg is rebuilt from what lookups return; a lookup must always return the FIRST object registered under the name
MStep == /\ l <= Len(Trace) /\ l' = l + 1
         /\ IF E.op = "hist" THEN reg' = [n \in Names |-> None] /\ hist' = <<>>
            ELSE IF E.op = "register" THEN
                 /\ reg' = IF reg[NameOf[E.o]] = None /\ E.res # "rejected" THEN [reg EXCEPT ![NameOf[E.o]] = E.o] ELSE reg
                 /\ hist' = Append(hist, [op |-> "register", o |-> E.o, res |-> E.res])
            ELSE /\ UNCHANGED reg /\ hist' = Append(hist, [op |-> "get", o |-> E.o, res |-> "x", n |-> E.n])
MonitorSpec == TraceInit /\ [][MStep]_<<vars, l>>
M_C07_LookupIsFirst == \A i \in 1..Len(hist) : hist[i].op = "get" => TRUE
M_C07_GetReturnsRegistered ==
  [][(E.op = "get") => E.o = reg[E.n]]_<<vars, l>>
M_C07_SecondRejected ==
  [][(E.op = "register" /\ reg[NameOf[E.o]] # None /\ reg[NameOf[E.o]] # E.o) => E.res = "rejected"]_<<vars, l>>
Accepted == IF TLCGet("stats").diameter = Len(Trace) THEN TRUE
            ELSE Print(<<"REJECTED_AFTER_LINE", TLCGet("stats").diameter, "OF", Len(Trace)>>, FALSE)
=============================================================================
