--------------------------- MODULE TracePlaceholder ---------------------------
(***************************************************************************)
(* Real placeholder resolutions against Placeholder.tla: every             *)
(* Configure.Get(key) of the config-quote processor is one Step whose key  *)
(* is bound (TLC infers the text), the resolved tag text is bound at the   *)
(* end.  The monitor evaluates the resolved text against the big-step      *)
(* meaning Den and flags runs that had to be aborted.                      *)
(***************************************************************************)
EXTENDS Placeholder, Json, SequencesExt
CONSTANT TraceFile
Trace == ndJsonDeserialize(TraceFile)
VARIABLES l, gets, aborted
ScOf(j) == [text |-> j.text, cfg |-> [keys |-> j.keys, vals |-> j.vals, kinds |-> j.kinds]]
TraceScenarios == {ScOf(Trace[1])}
E == Trace[l]
IsEv(name) == l <= Len(Trace) /\ E.ev = name /\ l' = l + 1

TGet == IsEv("get") /\ LET m == Match(s) IN m # <<0, 0>> /\ KeyAt(s, sc.cfg, m) = E.key /\ StepAt(m)
TEnd == /\ IsEv("end")
        /\ \/ E.status = "ok" /\ Finish /\ s = E.final
           \/ E.status = "err" /\ Overflow
TReset == IsEv("scenario") /\ status # "run"
          /\ LET x == ScOf(E) IN sc' = x /\ s' = x.text /\ steps' = 0 /\ status' = "run"
TraceInit == l = 2 /\ Init /\ gets = 0 /\ aborted = FALSE
TraceNext == (TGet \/ TEnd \/ TReset) /\ UNCHANGED <<gets, aborted>>
TraceSpec == TraceInit /\ [][TraceNext]_<<vars, l, gets, aborted>>
Accepted == IF TLCGet("stats").diameter = Len(Trace) THEN TRUE
            ELSE Print(<<"REJECTED_AFTER_LINE", TLCGet("stats").diameter, "OF", Len(Trace)>>, FALSE)

\* monitor: s is assigned from the logged resolved text; steps = number of lookups
MStep ==
  /\ l <= Len(Trace) /\ l' = l + 1
  /\ IF E.ev = "scenario" THEN LET x == ScOf(E) IN sc' = x /\ s' = x.text /\ steps' = 0 /\ status' = "run" /\ gets' = 0 /\ aborted' = FALSE
     ELSE IF E.ev = "get" THEN gets' = gets + 1 /\ steps' = (IF steps < MaxSteps THEN steps + 1 ELSE steps) /\ UNCHANGED <<sc, s, status, aborted>>
     ELSE /\ status' = (IF E.status \in {"ok", "err"} THEN E.status ELSE "err")
          /\ aborted' = (E.status \in {"abort", "panic"})
          /\ s' = (IF E.status = "ok" THEN E.final ELSE s)
          /\ UNCHANGED <<sc, steps, gets>>
MonitorSpec == TraceInit /\ [][MStep]_<<vars, l, gets, aborted>>
\* C16: resolution terminates by itself (the harness never had to cut it), within the bound
M_C16_Terminates == ~aborted /\ gets <= MaxSteps
\* C16: the resolved text is the meaning of the tag text; an error only when it has none
M_C16_Denotation == status = "ok" => (Den(sc.text, sc.cfg, MaxSteps).ok /\ s = Den(sc.text, sc.cfg, MaxSteps).s)
M_C16_ErrorOnlyWhenUnresolvable == (status = "err" /\ ~aborted) => ~Den(sc.text, sc.cfg, MaxSteps).ok
=============================================================================
