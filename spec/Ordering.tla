--------------------------- MODULE Ordering ---------------------------
(***************************************************************************)
(* The ordering contract of go-kid/ioc                                     *)
(* (util/framework_helper/order_component.go, util/sort2/sort.go):         *)
(* participants are partitioned into priority-ordered, ordered and         *)
(* unordered ones; the first two groups are sorted by Order() with an      *)
(* UNSTABLE sort (ties are free), the unordered keep an arbitrary order;   *)
(* the groups are concatenated in that sequence.  The model of the sort is *)
(* "any permutation that respects Precedes".  Used at three call sites:    *)
(* component post-processors, application runners, configuration loaders.  *)
(***************************************************************************)
EXTENDS Integers, Sequences, FiniteSets

Classes == {"prio", "ord", "un"}
\* A participant that carries the Priority marker but has no Order() is not priority-ORDERED: the contract sequences it with
\* the unordered ones (class "mark"; its ord is meaningless).
Marked == [cls |-> "mark", ord |-> 0]
Rank(c) == CASE c.cls = "prio" -> 1 [] c.cls = "ord" -> 2 [] OTHER -> 3
\* a must be sequenced strictly before b
Precedes(a, b) == Rank(a) < Rank(b) \/ (Rank(a) = Rank(b) /\ Rank(a) <= 2 /\ a.ord < b.ord)
Range(s) == {s[i] : i \in 1..Len(s)}

\* participant i of parts may be sequenced next after those in doneSeq
NextAllowed(parts, doneSeq, i) ==
  /\ i \in DOMAIN parts /\ i \notin Range(doneSeq)
  /\ \A j \in DOMAIN parts \ (Range(doneSeq) \cup {i}) : ~Precedes(parts[j], parts[i])

IsPerm(out, parts) == Len(out) = Len(parts) /\ Range(out) = DOMAIN parts
\* C12: everyone exactly once; priority < ordered < unordered; Order never decreases inside the first two groups
IsSortedPerm(out, parts) ==
  /\ IsPerm(out, parts)
  /\ \A a, b \in 1..Len(out) : a < b => ~Precedes(parts[out[b]], parts[out[a]])
\* a prefix of some sorted permutation
IsSortedPrefix(out, parts) ==
  /\ \A a, b \in 1..Len(out) : a # b => out[a] # out[b]
  /\ Range(out) \subseteq DOMAIN parts
  /\ \A a \in 1..Len(out) : \A j \in DOMAIN parts \ {out[k] : k \in 1..a} : ~Precedes(parts[j], parts[out[a]])
=============================================================================
