--------------------------- MODULE ScanPhase ---------------------------
(***************************************************************************)
(* One wave of applyDefinitionRegistryPostProcessors                        *)
(* (container/factory/post_processor_registration_delegate.go) at memory-  *)
(* access granularity: main spawns one goroutine per registered component, *)
(* each calls the scanner and, when it fails, appends to the shared slice  *)
(* `errs` (a read and a write of the slice header); main waits on the      *)
(* WaitGroup and then reads errs.  A vector-clock happens-before relation  *)
(* (spawn -> child, Done -> Wait, Unlock -> Lock) decides C20_RaceFree:    *)
(* no two conflicting accesses are unordered.  UseMutex = TRUE is the      *)
(* repaired code (fix F6); FALSE is the code at the pinned commit.  The    *)
(* same skeleton with no shared write is App.Close (the closers only log). *)
(***************************************************************************)
EXTENDS Integers, FiniteSets, TLC
CONSTANTS G,          \* goroutines of the wave (one per component), e.g. 1..3
          Failing,    \* SUBSET G : scanners that return an error
          UseMutex
Main == 0
Proc == G \cup {Main}
Zero == [p \in Proc |-> 0]
Join(a, b) == [p \in Proc |-> IF a[p] > b[p] THEN a[p] ELSE b[p]]
Leq(a, b) == \A p \in Proc : a[p] <= b[p]

VARIABLES pc, vc, wgClock, wgCount, muClock, muHeld, lastW, reads, race, errsLen
vars == <<pc, vc, wgClock, wgCount, muClock, muHeld, lastW, reads, race, errsLen>>
\* lastW : vector clock of the last write to errs ; reads : [Proc -> clock of that proc's last read]

Init ==
  /\ pc = [p \in Proc |-> IF p = Main THEN "spawn" ELSE "idle"]
  /\ vc = [p \in Proc |-> IF p = Main THEN [Zero EXCEPT ![Main] = 1] ELSE Zero]
  /\ wgClock = Zero /\ wgCount = Cardinality(G)            \* wg.Add(len(components))
  /\ muClock = Zero /\ muHeld = FALSE
  /\ lastW = Zero /\ reads = [p \in Proc |-> Zero]         \* `var errs []error` happens before spawn
  /\ race = FALSE /\ errsLen = 0

Tick(p) == [vc[p] EXCEPT ![p] = @ + 1]

\* main: go func(...) for every component (spawn edge), then wg.Wait()
SpawnAll ==
  /\ pc[Main] = "spawn"
  /\ vc' = [p \in Proc |-> IF p = Main THEN Tick(Main) ELSE [vc[Main] EXCEPT ![p] = 1]]
  /\ pc' = [p \in Proc |-> IF p = Main THEN "wait" ELSE "call"]
  /\ UNCHANGED <<wgClock, wgCount, muClock, muHeld, lastW, reads, race, errsLen>>

\* goroutine: call the scanner
Call(g) ==
  /\ pc[g] = "call"
  /\ pc' = [pc EXCEPT ![g] = IF g \in Failing THEN (IF UseMutex THEN "lock" ELSE "read") ELSE "done"]
  /\ UNCHANGED <<vc, wgClock, wgCount, muClock, muHeld, lastW, reads, race, errsLen>>
Lock(g) ==
  /\ pc[g] = "lock" /\ ~muHeld
  /\ muHeld' = TRUE /\ vc' = [vc EXCEPT ![g] = Join(vc[g], muClock)]
  /\ pc' = [pc EXCEPT ![g] = "read"]
  /\ UNCHANGED <<wgClock, wgCount, muClock, lastW, reads, race, errsLen>>
\* errs = append(errs, e): read the slice header ...
ReadErrs(g) ==
  /\ pc[g] = "read"
  /\ race' = (race \/ ~Leq(lastW, vc[g]))
  /\ reads' = [reads EXCEPT ![g] = vc[g]]
  /\ pc' = [pc EXCEPT ![g] = "write"]
  /\ UNCHANGED <<vc, wgClock, wgCount, muClock, muHeld, lastW, errsLen>>
\* ... and write it back
WriteErrs(g) ==
  /\ pc[g] = "write"
  /\ race' = (race \/ ~Leq(lastW, vc[g]) \/ \E q \in Proc \ {g} : ~Leq(reads[q], vc[g]))
  /\ lastW' = vc[g] /\ errsLen' = errsLen + 1
  /\ vc' = [vc EXCEPT ![g] = Tick(g)]
  /\ pc' = [pc EXCEPT ![g] = IF UseMutex THEN "unlock" ELSE "done"]
  /\ UNCHANGED <<wgClock, wgCount, muClock, muHeld, reads>>
Unlock(g) ==
  /\ pc[g] = "unlock"
  /\ muHeld' = FALSE /\ muClock' = vc[g] /\ vc' = [vc EXCEPT ![g] = Tick(g)]
  /\ pc' = [pc EXCEPT ![g] = "done"]
  /\ UNCHANGED <<wgClock, wgCount, lastW, reads, race, errsLen>>
\* defer wg.Done()
Done(g) ==
  /\ pc[g] = "done"
  /\ wgClock' = Join(wgClock, vc[g]) /\ wgCount' = wgCount - 1
  /\ pc' = [pc EXCEPT ![g] = "exit"]
  /\ UNCHANGED <<vc, muClock, muHeld, lastW, reads, race, errsLen>>
\* wg.Wait() returns, then main reads errs
WaitReturn ==
  /\ pc[Main] = "wait" /\ wgCount = 0
  /\ vc' = [vc EXCEPT ![Main] = Join(vc[Main], wgClock)]
  /\ pc' = [pc EXCEPT ![Main] = "check"]
  /\ UNCHANGED <<wgClock, wgCount, muClock, muHeld, lastW, reads, race, errsLen>>
MainRead ==
  /\ pc[Main] = "check"
  /\ race' = (race \/ ~Leq(lastW, vc[Main]))
  /\ pc' = [pc EXCEPT ![Main] = "end"]
  /\ UNCHANGED <<vc, wgClock, wgCount, muClock, muHeld, lastW, reads, errsLen>>

Next == SpawnAll \/ WaitReturn \/ MainRead
        \/ \E g \in G : Call(g) \/ Lock(g) \/ ReadErrs(g) \/ WriteErrs(g) \/ Unlock(g) \/ Done(g)
Spec == Init /\ [][Next]_vars

C20_RaceFree == ~race
\* every error is reported (no lost update) -- a consequence users can see
AllErrorsKept == pc[Main] = "end" => errsLen = Cardinality(Failing)
=============================================================================
