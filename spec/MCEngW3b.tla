--------------------------- MODULE MCEngW3b ---------------------------
(* Family W3b: single-edge graphs without self loops x exactly two substituted nodes. *)
(* One family per module: TLC evaluates constant definitions when a module is loaded.          *)
EXTENDS Container
CONSTANTS WModes
AllFalse == [n \in Node |-> FALSE]
AllTrue == [n \in Node |-> TRUE]
NoWrap == [n \in Node |-> "none"]
NoFail == [n \in Node |-> "none"]
Empty == [n \in Node |-> {}]
Disj == {p \in (SUBSET Node) \X (SUBSET Node) : p[1] \cap p[2] = {}}
NoSelfGraphs == {x \in [Node -> SUBSET Node] : \A n \in Node : n \notin x[n]}
TwoWrap == {w \in [Node -> WModes \cup {"none"}] : Cardinality({n \in Node : w[n] # "none"}) = 2}
Fam == {[single |-> g, selfOpt |-> AllFalse, slice |-> Empty, sliceOpt |-> AllFalse, lazy |-> {},
         wrap |-> w, fail |-> NoFail, procs |-> <<>>, mode |-> [n \in Node |-> "normal"], rorder |-> <<>>, ilook |-> NoLook] : g \in NoSelfGraphs, w \in TwoWrap}
=============================================================================
