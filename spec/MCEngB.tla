--------------------------- MODULE MCEngB ---------------------------
(* Family B: all graphs where a target may be BOTH a single-valued point and a slice member of   *)
(* the same holder (the full N x N x 2 bit family).  No substitution, faults or lazies.          *)
EXTENDS Container
AllFalse == [n \in Node |-> FALSE]
NoWrap == [n \in Node |-> "none"]
NoFail == [n \in Node |-> "none"]
Fam == {[single |-> g, selfOpt |-> AllFalse, slice |-> h, sliceOpt |-> AllFalse, lazy |-> {},
         wrap |-> NoWrap, fail |-> NoFail, procs |-> <<>>, mode |-> [n \in Node |-> "normal"], rorder |-> <<>>, ilook |-> NoLook] : g \in [Node -> SUBSET Node], h \in [Node -> SUBSET Node]}
=============================================================================
