--------------------------- MODULE ValuePipe ---------------------------
(***************************************************************************)
(* The configuration-value pipeline of go-kid/ioc per property, in         *)
(* processor order (container/processors/orders.go):                       *)
(*   config quote (priority 4)  ${key} -> FormatAny(configured value)      *)
(*   expression   (priority 8)  #{expr} -> FormatAny(result)               *)
(*   bind         (priority 16) value tag: ParseAny(text) -> decode into   *)
(*                               the field; prefix tag: decode the         *)
(*                               configured subtree directly               *)
(*   validate     (order 8)     validate=... on the bound value            *)
(* Part 1 (C17): FormatAny / ParseAny (github.com/go-kid/strconv2) as a    *)
(* first-match case analysis over LEXICAL CLASSES of values: which classes *)
(* survive the text round trip of the value path unchanged, compared with  *)
(* the prefix path that never leaves the typed value.                      *)
(* Part 2 (C18): a small expression language (integers, booleans,          *)
(* + - * > == && ||, placeholders) and the constraints required / min /    *)
(* max / eq, evaluated by TLA+ itself.                                     *)
(***************************************************************************)
EXTENDS Integers, Sequences, FiniteSets, TLC

\* ------------------------------------------------------------------ Part 1: value classes
StrClasses == {"plain", "numCanon", "numNeg", "numTrail0", "numLead0", "numPlus", "exp", "hex", "boolLower", "boolOther",
               "squoted", "dquoted", "bracket", "jsonObj", "mapLit", "empty", "hash", "braceNonJson", "paren", "nilText"}
TypedClasses == {"intSmall", "intBig", "floatFrac", "floatBig", "floatTiny", "boolTrue", "listInt", "listStr", "listNumStr", "listEmpty",
                 "mapFlat", "mapNested", "mapEmpty", "mapStruct"}
Classes == StrClasses \cup TypedClasses
FieldTypes == {"string", "int", "float64", "bool", "strs", "ints", "map", "any", "pint", "pstr", "struct", "pstruct"}

\* FormatAny: a string is written as is, booleans as true/false, collections as JSON, everything else with %v
FormatEffect(c) ==
  CASE c \in StrClasses -> "asIs"
    [] c = "intBig" -> "asIs"            \* %v of an int prints all digits; the loss happens when ParseAny re-reads it
    [] c \in {"floatBig", "floatTiny"} -> "exponent"      \* %v prints 1e+21 / 1e-05, which ParseAny no longer recognises as a number
    [] OTHER -> "asIs"
\* the expression stage runs on the text the placeholder produced: a configured value containing #{...} is evaluated
ExprEffect(c) == IF c = "hash" THEN "evaluated" ELSE "none"
\* ParseAny: first match of  "" | true/false (any case) | ^[+-]?\d+(\.\d+)?$ | map | slice | quoted | default
ParsedAs(c) ==
  CASE c = "empty" -> "emptyText"                                  \* the value processor treats "" as missing
    [] c \in {"boolLower", "boolOther", "boolTrue"} -> "bool"
    [] c \in {"numCanon", "numNeg", "numTrail0", "numLead0", "numPlus", "intSmall", "intBig", "floatFrac", "hash"} -> "float64"
    [] c \in {"jsonObj", "mapLit", "mapFlat", "mapNested", "mapEmpty", "mapStruct"} -> "map"
    [] c \in {"bracket", "listInt", "listStr", "listNumStr", "listEmpty"} -> "slice"
    [] c \in {"squoted", "dquoted"} -> "unquoted"
    [] OTHER -> "string"                                           \* plain, exp, hex, braceNonJson, paren, nilText, floatBig (1e+21)
\* what the configured value is before it is turned into text
KindOf(c) ==
  CASE c \in StrClasses -> "string"
    [] c \in {"intSmall", "intBig"} -> "int"
    [] c \in {"floatFrac", "floatBig", "floatTiny"} -> "float64"
    [] c = "boolTrue" -> "bool"
    [] c \in {"listInt", "listStr", "listNumStr", "listEmpty"} -> "slice"
    [] OTHER -> "map"
\* does the text round trip change what a field of type ft receives?  (only asked where the prefix path succeeds;
\* the cells are those where a re-typed / re-formatted value is visible in the field: a numeric field hides "007" -> 7)
TextTypes == {"string", "strs", "any", "pstr"}
IntTypes == {"int", "ints", "pint"}
Alters(c, ft) ==
  \/ c \in {"numTrail0", "numLead0", "numPlus"} /\ ft \in TextTypes            \* re-typed: 1.10 -> 1.1, 007 -> 7, +5 -> 5
  \/ c \in {"boolLower", "boolOther"} /\ ft \in TextTypes                      \* "TRUE" becomes the boolean true
  \/ c \in {"squoted", "dquoted"} /\ ft \in TextTypes                          \* quotes stripped
  \/ c \in {"bracket", "jsonObj", "mapLit"} /\ ft \in TextTypes                \* a string becomes a list / map
  \/ c = "hash" /\ ft \in TextTypes                                            \* #{...} inside a configured value is evaluated
  \/ c = "empty" /\ ft # "map"                                                 \* "" counts as missing on the value path
  \/ c = "intBig" /\ ft \in TextTypes \cup IntTypes                            \* > 2^53: read back as float64
  \/ c \in {"floatBig", "floatTiny"} /\ ft \in TextTypes \cup IntTypes \cup {"bool"}  \* printed as 1e+21 / 1e-05: a string for ParseAny
  \/ c \in {"numCanon", "numNeg", "intSmall"} /\ ft = "any"                     \* numbers arrive as float64 in `any`
\* C17, first sentence: where the configured value's kind IS the field's kind, binding by prefix gives the field exactly the
\* configured value (compared as JSON text) - whatever the field held before the start.
ExactCell(c, ft) ==
  CASE KindOf(c) = "string" -> ft \in {"string", "any", "pstr"}
    [] KindOf(c) = "int" -> ft \in {"int", "any", "pint"}
    [] KindOf(c) = "float64" -> ft \in {"float64", "any"}
    [] KindOf(c) = "bool" -> ft \in {"bool", "any"}
    [] c = "listInt" -> ft \in {"ints", "any"}
    [] c \in {"listStr", "listNumStr"} -> ft \in {"strs", "any"}
    [] c \in {"mapFlat", "mapNested"} -> ft \in {"map", "any"}
    [] c = "mapStruct" -> ft \in {"map", "any", "struct", "pstruct"}
    [] OTHER -> FALSE          \* empty collections: absent and empty are not distinguished by the property
RoundTripIdentity(c) == \A ft \in FieldTypes : ~Alters(c, ft)
\* C17: binding through a placeholder equals binding by prefix -- as stated it fails for the classes below (finding F10)
KnownF10 == {"numTrail0", "numLead0", "numPlus", "boolLower", "boolOther", "squoted", "dquoted", "bracket", "jsonObj", "mapLit",
             "empty", "hash", "intBig", "floatBig", "floatTiny", "numCanon", "numNeg", "intSmall"}
C17_Twin == \A c \in Classes : RoundTripIdentity(c)
C17_TwinExceptKnown == \A c \in Classes \ KnownF10 : RoundTripIdentity(c)
\* consistency of the case analysis: a class is altered exactly when one of the stages does something to it
StageTouches(c) == FormatEffect(c) # "asIs" \/ ExprEffect(c) # "none"
                   \/ (KindOf(c) = "string" /\ ParsedAs(c) # "string")
                   \/ (KindOf(c) \in {"int"} /\ ParsedAs(c) = "float64")
                   \/ c = "intBig"
C17_ModelConsistent == \A c \in Classes : (\E ft \in FieldTypes : Alters(c, ft)) => StageTouches(c)

\* ------------------------------------------------------------------ Part 2: expressions and validation
\* values are tagged (TLC cannot compare integers with booleans): [t |-> "int", v |-> n] | [t |-> "bool", v |-> b] | Err
IntV(n) == [t |-> "int", v |-> n, s |-> ""]
StrV(x) == [t |-> "str", v |-> 0, s |-> x]          \* strings carry their text in a separate field
BoolV(b) == [t |-> "bool", v |-> IF b THEN 1 ELSE 0, s |-> ""]      \* (all payloads are integers: TLC cannot compare 0 with FALSE)
Err == [t |-> "err", v |-> 0, s |-> ""]
Oos == [t |-> "oos", v |-> 0, s |-> ""]     \* outside the modelled fragment (ordering of strings): such cases are not exported
\* expression trees: [op, l, r] | [op |-> "lit", v] | [op |-> "ph", v |-> key] (placeholder, substituted before evaluation)
RECURSIVE Eval(_, _)
Eval(e, cfg) ==
  IF e.op = "lit" THEN e.v
  ELSE IF e.op = "ph" THEN cfg[e.k]
  ELSE LET a == Eval(e.l, cfg)  b == Eval(e.r, cfg) IN
       IF a.t = "oos" \/ b.t = "oos" THEN Oos
       ELSE IF a.t = "err" \/ b.t = "err" THEN Err
       ELSE CASE e.op = "+" /\ a.t = "str" /\ b.t = "str" -> StrV(a.s \o b.s)           \* string concatenation
              [] e.op = ">" /\ a.t = "str" /\ b.t = "str" -> Oos                          \* the library orders strings; TLA+ does not
              [] e.op \in {"+", "-", "*", ">"} ->
                   IF a.t = "int" /\ b.t = "int"
                   THEN (CASE e.op = "+" -> IntV(a.v + b.v) [] e.op = "-" -> IntV(a.v - b.v) [] e.op = "*" -> IntV(a.v * b.v)
                           [] e.op = ">" -> BoolV(a.v > b.v))
                   ELSE Err
              [] e.op = "==" -> IF a.t = b.t THEN BoolV(a.v = b.v /\ a.s = b.s) ELSE Err
              [] e.op \in {"&&", "||"} ->
                   IF a.t = "bool" /\ b.t = "bool" THEN BoolV(IF e.op = "&&" THEN a.v = 1 /\ b.v = 1 ELSE a.v = 1 \/ b.v = 1) ELSE Err
\* constraints of the validate argument on an integer value
Violates(v, c) ==
  CASE c.k = "required" -> v = 0
    [] c.k = "min" -> v < c.n
    [] c.k = "max" -> v > c.n
    [] c.k = "eq"  -> v # c.n
\* The constraints of one validate argument form ONE chain, checked left to right; the positional modifiers govern what
\* follows them: "omitempty" ends the chain successfully when the value is empty (0 / no elements), "dive" applies the rest of
\* the chain to every element of a list (what stands before it applies to the list itself: min / max / eq of its length).
RECURSIVE VF(_, _, _)
VF(v, cs, i) == IF i > Len(cs) THEN FALSE
                ELSE IF cs[i].k = "omitempty" THEN (IF v = 0 THEN FALSE ELSE VF(v, cs, i + 1))
                ELSE Violates(v, cs[i]) \/ VF(v, cs, i + 1)
ValidationFails(v, cs) == VF(v, cs, 1)
RECURSIVE VFS(_, _, _)
VFS(xs, cs, i) == IF i > Len(cs) THEN FALSE
                  ELSE IF cs[i].k = "dive" THEN \E j \in 1..Len(xs) : VF(xs[j], cs, i + 1)
                  ELSE IF cs[i].k = "omitempty" THEN (IF Len(xs) = 0 THEN FALSE ELSE VFS(xs, cs, i + 1))
                  ELSE Violates(Len(xs), cs[i]) \/ VFS(xs, cs, i + 1)
ListValidationFails(xs, cs) == VFS(xs, cs, 1)
\* `required` on a nested struct member (struct validation): a by-value member is unset when it is the zero struct (absent, or
\* present with zero fields only); a pointer member is unset only when absent
NestedRequiredFails(ptr, nx) == IF ptr THEN nx = "absent" ELSE nx \in {"absent", "0"}
\* C09: a configuration value that is missing: required -> start-up error (never a panic), optional -> the field keeps its zero value
MissingOutcome(required) == IF required THEN "err" ELSE "zero"
=============================================================================
