--------------------------- MODULE MCEngM ---------------------------
(* Family M: lifecycle modes imposed by a user post-processor (normal / before-processor returns nil / instantiation *)
(* short-cut) on every node of every single-edge graph x every lazy subset x one optional fault.                      *)
EXTENDS Container
AllFalse == [n \in Node |-> FALSE]
NoWrap == [n \in Node |-> "none"]
Empty == [n \in Node |-> {}]
OneFault == {f \in [Node -> {"none", "before", "init", "after"}] : Cardinality({n \in Node : f[n] # "none"}) <= 1}
Fam == {[single |-> g, selfOpt |-> AllFalse, slice |-> Empty, sliceOpt |-> AllFalse, lazy |-> lz, wrap |-> NoWrap, fail |-> fl, procs |-> <<>>, mode |-> md, rorder |-> <<>>, ilook |-> NoLook] :
          g \in [Node -> SUBSET Node], lz \in SUBSET Node, fl \in OneFault, md \in [Node -> Modes]}
=============================================================================
