--------------------------- MODULE MCEngO ---------------------------
(* Family O ("once"): every single-edge graph over LAZY components x substitution modes x ONE transient fault (it fires only  *)
(* while nothing has failed yet: the first attempt fails, a retry goes through), explored together with up to MaxLookups       *)
(* post-run lookups in every order: creation fails, is cleaned up, and is attempted again.                                    *)
EXTENDS Container
CONSTANT WModes
AllFalse == [n \in Node |-> FALSE]
Empty == [n \in Node |-> {}]
OneFault == {fl \in [Node -> FailMode \ {"run"}] : \E n \in Node : fl[n] # "none" /\ \A m \in Node \ {n} : fl[m] = "none"}
Fam == {[single |-> g, selfOpt |-> AllFalse, slice |-> Empty, sliceOpt |-> AllFalse, lazy |-> Node, wrap |-> w, fail |-> fl, procs |-> <<>>,
         mode |-> [n \in Node |-> "normal"], rorder |-> <<>>, ilook |-> NoLook, once |-> [n \in Node |-> fl[n] # "none"]] :
          g \in [Node -> SUBSET Node], w \in [Node -> WModes], fl \in OneFault}
=============================================================================
