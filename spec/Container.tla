--------------------------- MODULE Container ---------------------------
(***************************************************************************)
(* The creation engine of go-kid/ioc: the three-level singleton cache, the *)
(* recursion of doGetComponent / createComponent / populateComponent, the  *)
(* lifecycle callbacks, the early-reference check and the refresh driver.  *)
(*                                                                         *)
(* Code anchors: container/factory/factory.go,                             *)
(*   container/support/singleton_component_registry.go,                    *)
(*   container/factory/post_processor_registration_delegate.go,            *)
(*   component_definition/property.go (Inject), meta.go (dependOn).        *)
(*                                                                         *)
(* Every action is ONE observable event of the real container (a registry  *)
(* call returning, a callback firing), so recorded traces of the real code *)
(* are validated without searching for silent steps (TraceContainer.tla).  *)
(*                                                                         *)
(* A scenario (state variable sc, chosen in Init) fixes the resolved       *)
(* dependency graph, lazy set, substitution mode and fault per node.       *)
(* Candidate resolution (which component an injection point resolves to)   *)
(* is Resolve.tla's business; here edges are already resolved.             *)
(* Scenario records of recorded runs carry harness-only fields as well     *)
(* (orders, edge realisation, `quiet`: a user processor ordered first that *)
(* answers false to PostProcessAfterInstantiation - which only skips its   *)
(* own property processing and therefore has no action here).              *)
(***************************************************************************)
EXTENDS Integers, Sequences, FiniteSets, TLC

CONSTANTS N,           \* number of pool components
          Scenarios,   \* set of scenario records
          MaxLookups,  \* user GetComponentByName calls after Run returned
          FixF4,       \* TRUE: failed creation is cleaned up (RemoveSingleton on the error path)
          FixF9,       \* TRUE: the component itself counts as an actual dependent in the early-reference check
          FixF3        \* TRUE: the holder is removed from its own candidates at resolution time (further matching),
                       \*       FALSE: only Property.Inject filters it out after it has been fetched

Node == 1..N
WrapMode == {"none", "early", "after", "bothDiff", "bothSame", "spring"}
FailMode == {"none", "resolve", "before", "aps", "init", "after", "early", "run"}     \* "run": an application runner whose Run fails
MetaKinds == {"raw", "earlyP", "afterP"}
Callbacks == {"resolve", "before", "aps", "init", "after"}

\* A version of a component: node, Meta identity (k), object identity (o).
NoV == [n |-> 0, k |-> "none", o |-> "none"]
Raw(n) == [n |-> n, k |-> "raw", o |-> "raw"]

VARIABLES sc,        \* the scenario
          L1, L2,    \* singletonObjects / earlySingletonObjects : Node -> version
          L3,        \* singletonFactories : set of nodes
          inCr,      \* singletonCurrentlyInCreation
          stack,     \* recursion stack of creation frames
          fS,        \* single-valued fields: holder -> target -> version
          fL,        \* slice field: holder -> sequence of versions
          deps,      \* Meta.Dependent: node -> meta kind -> set of holders
          earlyRuns, \* early-reference factory runs per creation attempt
          seen,      \* versions handed out for a node while it is in creation (current attempt)
          phase,     \* lifecycle phase per node
          cnt,       \* callback counters: node -> callback -> Nat
          queue,     \* refresh driver: eager nodes still to get
          status,    \* "refresh" | "done" | "failed"
          lookups,   \* user lookups issued so far
          failedEver, \* some creation attempt failed in this run
          pinit,     \* Init() calls of the user post-processors (sc.procs), which are components themselves
          ran        \* application runners invoked so far (sequence of nodes)
vars == <<sc, L1, L2, L3, inCr, stack, fS, fL, deps, earlyRuns, seen, phase, cnt, queue, status, lookups, failedEver, pinit, ran>>

EarlyVer(s, n) ==
  IF s.wrap[n] \in {"early", "bothDiff", "bothSame", "spring"}
  THEN [n |-> n, k |-> "earlyP", o |-> "We"] ELSE Raw(n)

\* what PostProcessAfterInitialization hands back for n
AfterObj(n) ==
  CASE sc.wrap[n] \in {"none", "early"} -> "raw"
    [] sc.wrap[n] \in {"after", "bothDiff"} -> "Wa"
    [] sc.wrap[n] = "bothSame" -> "We"
    [] sc.wrap[n] = "spring" -> IF earlyRuns[n] > 0 THEN "raw" ELSE "We"

SortedEager(s) ==
  LET RECURSIVE Asc(_, _)
      Asc(i, acc) == IF i > N THEN acc
                     ELSE Asc(i + 1, IF i \notin s.lazy THEN Append(acc, i) ELSE acc)
  IN Asc(1, <<>>)

\* The App component (created first: its name sorts before the pool's) holds the application runners in a slice, so the
\* runner nodes (sc.rorder: in candidate iteration order, lazy ones included) are created before the name-ordered refresh.
InitQueue(s) == s.rorder \o SortedEager(s)
SeqRange(q) == {q[i] : i \in 1..Len(q)}
ZeroCnt == [c \in Callbacks |-> 0]
\* lifecycle modes a user post-processor can impose on a component (sc.mode):
\*   "normal"    the full lifecycle
\*   "beforeNil" a before-initialization processor returns nil: Init and the after-callbacks are skipped (modelled deviation)
\*   "shortcut"  PostProcessBeforeInstantiation returns the component: no early exposure, no population, no Init;
\*               only the after-initialization callbacks run (ResolveBeforeInstantiation)
Modes == {"normal", "beforeNil", "shortcut"}
Reached(m) == CASE m = "normal" -> Callbacks [] m = "beforeNil" -> {"resolve", "before"} [] m = "shortcut" -> {"after"}

\* sc.prewire[h]: single-valued targets whose field the USER filled by hand (with the registered raw object) before the start -
\* the same instances started a second time, or defaults wired in a constructor.  It must not influence anything: the
\* dependency is still fetched (created, initialised first) and the field ends up holding the published version.
PrewireOf(s, h) == IF "prewire" \in DOMAIN s THEN s.prewire[h] ELSE {}
InitFS(s) == [h \in Node |-> [t \in Node |-> IF t \in PrewireOf(s, h) THEN [n |-> t, k |-> "raw", o |-> "raw"] ELSE NoV]]
InitWith(s) ==
  /\ sc = s
  /\ L1 = [n \in Node |-> NoV] /\ L2 = [n \in Node |-> NoV] /\ L3 = {} /\ inCr = {}
  /\ stack = <<>>
  /\ fS = InitFS(s) /\ fL = [h \in Node |-> <<>>]
  /\ deps = [n \in Node |-> [k \in MetaKinds |-> {}]]
  /\ earlyRuns = [n \in Node |-> 0] /\ seen = [n \in Node |-> {}]
  /\ phase = [n \in Node |-> "new"] /\ cnt = [n \in Node |-> ZeroCnt]
  /\ queue = InitQueue(s) /\ status = "refresh" /\ lookups = 0 /\ failedEver = FALSE
  /\ pinit = [p \in 1..Len(s.procs) |-> 0] /\ ran = <<>>
ResetTo(s) ==
  /\ sc' = s
  /\ L1' = [n \in Node |-> NoV] /\ L2' = [n \in Node |-> NoV] /\ L3' = {} /\ inCr' = {}
  /\ stack' = <<>>
  /\ fS' = InitFS(s) /\ fL' = [h \in Node |-> <<>>]
  /\ deps' = [n \in Node |-> [k \in MetaKinds |-> {}]]
  /\ earlyRuns' = [n \in Node |-> 0] /\ seen' = [n \in Node |-> {}]
  /\ phase' = [n \in Node |-> "new"] /\ cnt' = [n \in Node |-> ZeroCnt]
  /\ queue' = InitQueue(s) /\ status' = "refresh" /\ lookups' = 0 /\ failedEver' = FALSE
  /\ pinit' = [p \in 1..Len(s.procs) |-> 0] /\ ran' = <<>>

Init == \E s \in Scenarios : InitWith(s)

Top == stack[Len(stack)]
Pop == SubSeq(stack, 1, Len(stack) - 1)

\* frame of a component under creation
\*  pc    : "mark" -> "factory" -> "resolve" -> "pop" (populate) -> "aps" -> "init" -> "ainit" -> "check" -> "end" ; or "fail"
\*  todoS : single-valued targets not yet fetched ; todoL : slice targets not yet fetched
\*  open  : a slice property is being fetched ; acc : versions fetched for it so far
\*  exp   : while waiting for a nested creation: what was asked; later the version to publish
\*  il    : the component's Init has already performed its own lookup (sc.ilook)
Frame(n) == [n |-> n, pc |-> "mark", todoS |-> {}, todoL |-> {}, open |-> FALSE, acc |-> <<>>, exp |-> NoV, il |-> FALSE]
\* sc.ilook[n] = t # 0: the component's Init() itself asks the container for component t by name (a service locator call during
\* initialisation; t may be lazy and may depend back on n, which closes a cycle during INITIALISATION instead of population)
NoLook == [n \in Node |-> 0]

\* a required point that only the holder itself could satisfy
SelfOnly(s, h) == s.mode[h] # "shortcut" /\ ((h \in s.single[h] /\ ~s.selfOpt[h]) \/ (s.slice[h] = {h} /\ ~s.sliceOpt[h]))

\* sc.late[h]: the holder's slice point is served by a USER-WRITTEN collector that runs after the library's further matching (a
\* custom tag, an unordered processor setting Property.Injects itself): the library's resolution-time self filter never sees
\* those candidates, the holder is among them when it matches, and only Property.Inject's own filter keeps it out of the field.
\* (Such a point is optional: a required point without candidates fails in further matching, before the collector runs.)
LateOf(s, h) == IF "late" \in DOMAIN s THEN s.late[h] ELSE FALSE

\* sc.once[n]: the fault of n is TRANSIENT - it fires only while nothing has failed yet in this container (the first attempt fails,
\* a retry goes through).  failedEver turns TRUE when the failing creation returns, i.e. after the fault fired and before any
\* other callback can run.
OnceOf(s, n) == IF "once" \in DOMAIN s THEN s.once[n] ELSE FALSE
Faulty(n, tag) == sc.fail[n] = tag /\ (~OnceOf(sc, n) \/ ~failedEver)

\* sc.ptr[h]: the single-valued targets of h that are wired through a POINTER-typed point (*T): only the raw component fits
\* such a field.  A version a post-processor substituted (an object of another type) does not - it counts as not found: the
\* required point fails with an error (fix F17; the pinned code panicked in reflect.Set).
PtrOf(s, h) == IF "ptr" \in DOMAIN s THEN s.ptr[h] ELSE {}
Unfit(h, t, v) == t \in PtrOf(sc, h) /\ v.o # "raw"

\* Meta.IsSelf: the candidate's origin address is the holder's own object
IsSelf(h, v) == v.n = h /\ v.o = "raw"

\* ----------------------------------------------------------------------
\* Delivery of a fetched version v for target t to the frame f that asked
\* for it, including Property.Inject when the property is complete.
\* Returns the record [f, fS, fL, deps].
Deliver(f, t, v, wasSlice, deps0) ==
  LET h == f.n IN
  IF ~wasSlice THEN
     IF IsSelf(h, v)
     THEN [f |-> IF sc.selfOpt[h] THEN f ELSE [f EXCEPT !.pc = "fail"], fS |-> fS, fL |-> fL, deps |-> deps0]
     ELSE IF Unfit(h, t, v)
     THEN [f |-> [f EXCEPT !.pc = "fail"], fS |-> fS, fL |-> fL, deps |-> deps0]
     ELSE [f |-> f, fS |-> [fS EXCEPT ![h][t] = v], fL |-> fL,
           deps |-> [deps0 EXCEPT ![v.n][v.k] = @ \cup {h}]]
  ELSE
     LET acc2 == Append(f.acc, v) IN
     IF f.todoL # {}
     THEN [f |-> [f EXCEPT !.acc = acc2], fS |-> fS, fL |-> fL, deps |-> deps0]
     ELSE LET kept == SelectSeq(acc2, LAMBDA x : ~IsSelf(h, x))
              f2 == [f EXCEPT !.acc = <<>>, !.open = FALSE] IN
          IF kept = <<>>
          THEN [f |-> IF sc.sliceOpt[h] THEN f2 ELSE [f2 EXCEPT !.pc = "fail"], fS |-> fS, fL |-> fL, deps |-> deps0]
          ELSE [f |-> f2, fS |-> fS, fL |-> [fL EXCEPT ![h] = kept],
                deps |-> [m \in Node |-> [k \in MetaKinds |->
                            IF \E i \in 1..Len(kept) : kept[i].n = m /\ kept[i].k = k
                            THEN deps0[m][k] \cup {h} ELSE deps0[m][k]]]]

\* Who may ask for target t now, and as what?  "top": refresh driver / user lookup.
CanAskSingle(t) == stack # <<>> /\ Top.pc = "pop" /\ ~Top.open /\ t \in Top.todoS
CanAskSlice(t)  == stack # <<>> /\ Top.pc = "pop" /\ t \in Top.todoL
CanAskInit(t)   == stack # <<>> /\ Top.pc = "init" /\ ~Top.il /\ sc.ilook[Top.n] = t
CanAskTop(t)    == /\ stack = <<>>
                   /\ \/ (status = "refresh" /\ queue # <<>> /\ Head(queue) = t /\ \A p \in 1..Len(sc.procs) : sc.procs[p] \/ pinit[p] = 1)
                      \/ (status \in {"done", "failed"} /\ lookups < MaxLookups)

\* result of registry.GetSingleton(t, TRUE) in the current state
Lookup(t) ==
  IF L1[t] # NoV THEN [found |-> TRUE, v |-> L1[t], err |-> FALSE, ran |-> FALSE]
  ELSE IF L2[t] # NoV THEN [found |-> TRUE, v |-> L2[t], err |-> FALSE, ran |-> FALSE]
  ELSE IF t \in L3 THEN
         IF Faulty(t, "early") THEN [found |-> FALSE, v |-> NoV, err |-> TRUE, ran |-> TRUE]
         ELSE [found |-> TRUE, v |-> EarlyVer(sc, t), err |-> FALSE, ran |-> TRUE]
  ELSE [found |-> FALSE, v |-> NoV, err |-> FALSE, ran |-> FALSE]

\* EVENT get(t): doGetComponent(t) -> registry.GetSingleton(t, true)
Get(t, kind) ==
  /\ CASE kind = "S" -> CanAskSingle(t) [] kind = "L" -> CanAskSlice(t) [] kind = "top" -> CanAskTop(t) [] kind = "I" -> CanAskInit(t)
  /\ LET r == Lookup(t)
         asSlice == kind = "L"
     IN
     /\ earlyRuns' = IF r.ran /\ ~r.err THEN [earlyRuns EXCEPT ![t] = @ + 1] ELSE earlyRuns
     /\ L2' = IF r.ran /\ ~r.err THEN [L2 EXCEPT ![t] = r.v] ELSE L2
     /\ L3' = IF r.ran /\ ~r.err THEN L3 \ {t} ELSE L3
     /\ seen' = IF r.found /\ t \in inCr THEN [seen EXCEPT ![t] = @ \cup {r.v}] ELSE seen
     /\ IF stack = <<>> THEN
          \* driver / user lookup
          /\ IF status = "refresh" THEN queue' = Tail(queue) /\ UNCHANGED lookups
                                   ELSE lookups' = lookups + 1 /\ UNCHANGED queue
          /\ IF r.found THEN UNCHANGED stack
             ELSE IF r.err THEN UNCHANGED stack
             ELSE stack' = <<Frame(t)>>
          /\ status' = IF r.err /\ status = "refresh" THEN "failed" ELSE status
          /\ failedEver' = (failedEver \/ r.err)
          /\ UNCHANGED <<fS, fL>>
          \* a fresh early proxy Meta starts without dependents
          /\ deps' = IF r.ran /\ ~r.err /\ r.v.k = "earlyP" THEN [deps EXCEPT ![t]["earlyP"] = {}] ELSE deps
        ELSE
          LET f0 == IF kind = "I" THEN [Top EXCEPT !.il = TRUE]
                    ELSE IF asSlice THEN [Top EXCEPT !.todoL = @ \ {t}, !.open = TRUE]
                               ELSE [Top EXCEPT !.todoS = @ \ {t}] IN
          /\ UNCHANGED <<queue, lookups, status>>
          /\ failedEver' = (failedEver \/ r.err)
          /\ IF r.found THEN
               LET d0 == IF r.ran /\ r.v.k = "earlyP" THEN [deps EXCEPT ![t]["earlyP"] = {}] ELSE deps
                   d == IF kind = "I" THEN [f |-> f0, fS |-> fS, fL |-> fL, deps |-> d0]     \* a lookup: nothing is injected, nobody becomes a dependent
                        ELSE Deliver(f0, t, r.v, asSlice, d0) IN
               /\ stack' = [stack EXCEPT ![Len(stack)] = d.f]
               /\ fS' = d.fS /\ fL' = d.fL /\ deps' = d.deps
             ELSE IF r.err THEN
               /\ stack' = [stack EXCEPT ![Len(stack)] = [f0 EXCEPT !.pc = "fail"]]
               /\ UNCHANGED <<fS, fL, deps>>
             ELSE
               /\ stack' = Append([stack EXCEPT ![Len(stack)] =
                                     [f0 EXCEPT !.exp = [n |-> t, k |-> IF kind = "I" THEN "I" ELSE IF asSlice THEN "L" ELSE "S", o |-> "wait"]]],
                                  Frame(t))
               /\ UNCHANGED <<fS, fL, deps>>
  /\ UNCHANGED <<sc, pinit, ran, L1, inCr, phase, cnt>>

\* EVENT createBegin(n): GetSingletonOrCreateByFactory marked the name and entered the factory
CreateBegin ==
  /\ stack # <<>> /\ Top.pc = "mark"
  /\ inCr' = inCr \cup {Top.n}
  /\ earlyRuns' = [earlyRuns EXCEPT ![Top.n] = 0]
  /\ seen' = [seen EXCEPT ![Top.n] = {}]
  /\ stack' = [stack EXCEPT ![Len(stack)] = [Top EXCEPT !.pc = "factory"]]
  /\ UNCHANGED <<sc, pinit, ran, L1, L2, L3, fS, fL, deps, phase, cnt, queue, status, lookups, failedEver>>

\* EVENT addFactory(n): doCreateComponent exposes the early-reference factory.
\* With FixF3 the further-matching processor (Order 4) rejects a required self-only point before the
\* harness processor's resolve event can fire; nothing observable lies between addFactory and the
\* failing createEnd, so the two code steps are one action here.
AddFactory ==
  /\ stack # <<>> /\ Top.pc = "factory" /\ sc.mode[Top.n] # "shortcut"
  /\ L3' = L3 \cup {Top.n}
  /\ phase' = [phase EXCEPT ![Top.n] = "populating"]
  /\ stack' = [stack EXCEPT ![Len(stack)] = [Top EXCEPT !.pc = IF FixF3 /\ SelfOnly(sc, Top.n) THEN "fail" ELSE "resolve"]]
  /\ UNCHANGED <<sc, pinit, ran, L1, L2, inCr, fS, fL, deps, earlyRuns, seen, cnt, queue, status, lookups, failedEver>>

Bump(n, c) == [cnt EXCEPT ![n][c] = @ + 1]

\* EVENT binst(n): ResolveBeforeInstantiation - a processor hands the component back before instantiation
Shortcut ==
  /\ stack # <<>> /\ Top.pc = "factory" /\ sc.mode[Top.n] = "shortcut"
  /\ stack' = [stack EXCEPT ![Len(stack)] = [Top EXCEPT !.pc = "sainit"]]
  /\ phase' = [phase EXCEPT ![Top.n] = "populating"]
  /\ UNCHANGED <<sc, pinit, ran, L1, L2, L3, inCr, fS, fL, deps, earlyRuns, seen, cnt, queue, status, lookups, failedEver>>
\* EVENT after(n, ok) on the shortcut path: only the after-initialization callbacks run, then the component is returned
SAfter ==
  /\ stack # <<>> /\ Top.pc = "sainit"
  /\ LET n == Top.n IN
     /\ cnt' = Bump(n, "after")
     /\ IF Faulty(n, "after")
        THEN stack' = [stack EXCEPT ![Len(stack)] = [Top EXCEPT !.pc = "fail"]] /\ UNCHANGED phase
        ELSE stack' = [stack EXCEPT ![Len(stack)] = [Top EXCEPT !.pc = "end", !.exp = Raw(n)]] /\ phase' = [phase EXCEPT ![n] = "ainit"]
  /\ UNCHANGED <<sc, pinit, ran, L1, L2, L3, inCr, fS, fL, deps, earlyRuns, seen, queue, status, lookups, failedEver>>

\* EVENT resolve(n, ok): ResolveAfterInstantiation reached the rig processor (PostProcessProperties)
Resolve ==
  /\ stack # <<>> /\ Top.pc = "resolve"
  /\ LET n == Top.n IN
     /\ stack' = [stack EXCEPT ![Len(stack)] =
                 IF Faulty(n, "resolve") THEN [Top EXCEPT !.pc = "fail"]
                 ELSE [Top EXCEPT !.pc = "pop", !.todoS = IF FixF3 THEN sc.single[n] \ {n} ELSE sc.single[n],
                                              !.todoL = IF FixF3 /\ ~LateOf(sc, n) THEN sc.slice[n] \ {n} ELSE sc.slice[n]]]
     /\ cnt' = Bump(n, "resolve")
  /\ UNCHANGED <<sc, pinit, ran, L1, L2, L3, inCr, fS, fL, deps, earlyRuns, seen, phase, queue, status, lookups, failedEver>>

PopulateDone(f) == f.pc = "pop" /\ f.todoS = {} /\ f.todoL = {} /\ ~f.open

\* EVENTS before / aps / init (n, ok)
Callback(pcFrom, failTag, pcTo, ph) ==
  /\ stack # <<>>
  /\ IF pcFrom = "pop" THEN PopulateDone(Top) ELSE Top.pc = pcFrom
  /\ LET n == Top.n IN
     /\ cnt' = Bump(n, failTag)
     /\ IF Faulty(n, failTag)
        THEN /\ stack' = [stack EXCEPT ![Len(stack)] = [Top EXCEPT !.pc = "fail"]]
             /\ UNCHANGED phase
        ELSE /\ stack' = [stack EXCEPT ![Len(stack)] = [Top EXCEPT !.pc = pcTo]]
             /\ phase' = [phase EXCEPT ![n] = ph]
  /\ UNCHANGED <<sc, pinit, ran, L1, L2, L3, inCr, fS, fL, deps, earlyRuns, seen, queue, status, lookups, failedEver>>

BInit  == \/ (stack # <<>> /\ sc.mode[Top.n] # "beforeNil" /\ Callback("pop", "before", "aps", "binit"))
          \/ \* the processor returns nil: InitializeComponent hands the untouched instance back, Init is skipped
             /\ stack # <<>> /\ sc.mode[Top.n] = "beforeNil" /\ PopulateDone(Top)
             /\ LET n == Top.n IN
                /\ cnt' = Bump(n, "before")
                /\ IF Faulty(n, "before")
                   THEN stack' = [stack EXCEPT ![Len(stack)] = [Top EXCEPT !.pc = "fail"]] /\ UNCHANGED phase
                   ELSE stack' = [stack EXCEPT ![Len(stack)] = [Top EXCEPT !.pc = "check", !.exp = Raw(n)]] /\ phase' = [phase EXCEPT ![n] = "binit"]
             /\ UNCHANGED <<sc, pinit, ran, L1, L2, L3, inCr, fS, fL, deps, earlyRuns, seen, queue, status, lookups, failedEver>>
APS    == Callback("aps", "aps", "init", "aps")
InitCb == stack # <<>> /\ (sc.ilook[Top.n] = 0 \/ Top.il) /\ Callback("init", "init", "ainit", "init")

\* EVENT after(n, ok): PostProcessAfterInitialization (may substitute)
AInit ==
  /\ stack # <<>> /\ Top.pc = "ainit"
  /\ LET n == Top.n IN
     /\ cnt' = Bump(n, "after")
     /\ IF Faulty(n, "after")
        THEN /\ stack' = [stack EXCEPT ![Len(stack)] = [Top EXCEPT !.pc = "fail"]] /\ UNCHANGED <<phase, deps>>
        ELSE /\ phase' = [phase EXCEPT ![n] = "ainit"]
             /\ stack' = [stack EXCEPT ![Len(stack)] =
                   [Top EXCEPT !.pc = "check",
                               !.exp = IF AfterObj(n) = "raw" THEN Raw(n)
                                       ELSE [n |-> n, k |-> "afterP", o |-> AfterObj(n)]]]
             \* a substituted object gets a fresh proxy Meta without dependents
             /\ deps' = IF AfterObj(n) # "raw" THEN [deps EXCEPT ![n]["afterP"] = {}] ELSE deps
  /\ UNCHANGED <<sc, pinit, ran, L1, L2, L3, inCr, fS, fL, earlyRuns, seen, queue, status, lookups, failedEver>>

\* EVENT getNoEarly(n): doCreateComponent compares the exposed object with the early reference
Check ==
  /\ stack # <<>> /\ Top.pc = "check"
  /\ LET n == Top.n  er == L2[n]  ex == Top.exp
         final == IF er # NoV /\ ex = Raw(n) THEN er ELSE ex
         dset == IF er # NoV THEN deps[n][er.k] \cup deps[n]["raw"] ELSE {}
         actual == {d \in dset : (d \notin inCr) \/ (FixF9 /\ d = n)}
     IN stack' = [stack EXCEPT ![Len(stack)] =
                    IF er # NoV /\ ex # Raw(n) /\ actual # {}
                    THEN [Top EXCEPT !.pc = "fail"]
                    ELSE [Top EXCEPT !.pc = "end", !.exp = final]]
  /\ UNCHANGED <<sc, pinit, ran, L1, L2, L3, inCr, fS, fL, deps, earlyRuns, seen, phase, cnt, queue, status, lookups, failedEver>>

\* EVENT createEnd(n, ok|err): GetSingletonOrCreateByFactory returns
CreateEnd ==
  /\ stack # <<>> /\ Top.pc \in {"end", "fail"}
  /\ LET f == Top  n == f.n  ok == f.pc = "end" IN
     /\ IF ok THEN /\ inCr' = inCr \ {n}
                   /\ L1' = [L1 EXCEPT ![n] = f.exp]
                   /\ L2' = [L2 EXCEPT ![n] = NoV]
                   /\ L3' = L3 \ {n}
                   /\ phase' = [phase EXCEPT ![n] = "published"]
              ELSE IF FixF4
                   THEN /\ inCr' = inCr \ {n} /\ L2' = [L2 EXCEPT ![n] = NoV] /\ L3' = L3 \ {n}
                        /\ phase' = [phase EXCEPT ![n] = "failed"] /\ UNCHANGED L1
                   ELSE UNCHANGED <<inCr, L1, L2, L3, phase>>     \* pinned code: no cleanup on the error path
     /\ failedEver' = (failedEver \/ ~ok)
     /\ IF Len(stack) = 1 THEN
          /\ stack' = <<>>
          /\ status' = IF ~ok /\ status = "refresh" THEN "failed" ELSE status
          /\ UNCHANGED <<fS, fL, deps>>
        ELSE
          LET p == stack[Len(stack) - 1]
              asSlice == p.exp.k = "L" IN
          /\ UNCHANGED status
          /\ IF ok /\ p.exp.k = "I" THEN          \* the parent's Init asked: its lookup returns, nothing is injected
               /\ stack' = [Pop EXCEPT ![Len(stack) - 1] = [p EXCEPT !.exp = NoV]]
               /\ UNCHANGED <<fS, fL, deps>>
             ELSE IF ok THEN
               LET d == Deliver([p EXCEPT !.exp = NoV], n, f.exp, asSlice, deps) IN
               /\ stack' = [Pop EXCEPT ![Len(stack) - 1] = d.f]
               /\ fS' = d.fS /\ fL' = d.fL /\ deps' = d.deps
             ELSE
               /\ stack' = [Pop EXCEPT ![Len(stack) - 1] = [p EXCEPT !.pc = "fail", !.exp = NoV]]
               /\ UNCHANGED <<fS, fL, deps>>
  /\ UNCHANGED <<sc, pinit, ran, earlyRuns, seen, cnt, queue, lookups>>

\* EVENT procInit(p): PrepareComponents creates every NON-lazy user post-processor through the factory (its
\* lifecycle runs once, before any ordinary component is refreshed); a LazyInit post-processor that no eager
\* component needs is registered but never initialised.
\* The action is the whole creation of the post-processor: its dependency (a plain component outside the graph) is created
\* and initialised, its own wire / value points are populated, then its Init runs - the event carries `populated` and
\* `depInited`, which the trace action requires to be TRUE.
NothingCreatedYet == stack = <<>> /\ status = "refresh" /\ queue = InitQueue(sc) /\ \A n \in Node : phase[n] = "new"
ProcInit(p) ==
  /\ p \in 1..Len(sc.procs) /\ ~sc.procs[p] /\ pinit[p] = 0 /\ NothingCreatedYet
  /\ pinit' = [pinit EXCEPT ![p] = 1]
  /\ UNCHANGED <<sc, L1, L2, L3, inCr, stack, fS, fL, deps, earlyRuns, seen, phase, cnt, queue, status, lookups, failedEver, ran>>
ProcsReady == \A p \in 1..Len(sc.procs) : sc.procs[p] \/ pinit[p] = 1

\* EVENT run(n, ok): App.callRunners after the refresh; the pool's runners are unordered participants of the ordering
\* contract, so their relative order is free; the first error stops the start
Refreshed == status = "refresh" /\ stack = <<>> /\ queue = <<>> /\ (\A p \in 1..Len(sc.procs) : sc.procs[p] \/ pinit[p] = 1)
RunnerRun(n) ==
  /\ Refreshed /\ n \in SeqRange(sc.rorder) /\ n \notin SeqRange(ran)
  /\ ran' = Append(ran, n)
  /\ status' = IF sc.fail[n] = "run" THEN "failed" ELSE status
  /\ UNCHANGED <<sc, pinit, L1, L2, L3, inCr, stack, fS, fL, deps, earlyRuns, seen, phase, cnt, queue, lookups, failedEver>>
\* EVENT runReturn(ok): refresh finished with nothing (left) to create, every runner ran
RefreshDone ==
  /\ Refreshed /\ SeqRange(ran) = SeqRange(sc.rorder)
  /\ status' = "done"
  /\ UNCHANGED <<sc, pinit, ran, L1, L2, L3, inCr, stack, fS, fL, deps, earlyRuns, seen, phase, cnt, queue, lookups, failedEver>>

Next == (\E t \in Node, kind \in {"S", "L", "top", "I"} : Get(t, kind)) \/ CreateBegin \/ AddFactory \/ Resolve
        \/ BInit \/ APS \/ InitCb \/ AInit \/ Check \/ CreateEnd \/ RefreshDone
        \/ \E p \in 1..2 : ProcInit(p)
        \/ Shortcut \/ SAfter \/ (\E n \in Node : RunnerRun(n))

Spec == Init /\ [][Next]_vars
LiveSpec == Spec /\ WF_vars(Next)

\* ====================================================================== properties
Quiescent == stack = <<>>
Started == status = "done" /\ Quiescent /\ ~failedEver

\* ---- C01: one shared instance per component
C01_Identity ==
  Started =>
     \A h \in Node :
        /\ \A t \in Node : fS[h][t] # NoV => (L1[t] # NoV /\ fS[h][t].o = L1[t].o)
        /\ \A i \in 1..Len(fL[h]) : LET v == fL[h][i] IN L1[v.n] # NoV /\ v.o = L1[v.n].o
C01_PublishedStable ==
  [][\A n \in Node : (L1[n] # NoV /\ sc' = sc) => L1'[n] = L1[n]]_vars

\* ---- C03: no stale version after substitution
C03_NoStale == C01_Identity
C03_NoStaleExceptSelf ==          \* the F9 signature excluded (holder = target)
  Started =>
     \A h \in Node :
        /\ \A t \in Node : (fS[h][t] # NoV /\ t # h) => (L1[t] # NoV /\ fS[h][t].o = L1[t].o)
        /\ \A i \in 1..Len(fL[h]) : LET v == fL[h][i] IN v.n # h => (L1[v.n] # NoV /\ v.o = L1[v.n].o)

\* ---- C02: circular dependencies resolve, start-up terminates
NoSubst == \A n \in Node : sc.wrap[n] = "none" /\ sc.fail[n] = "none" /\ sc.mode[n] = "normal"
C02_Populated ==
  (Started /\ NoSubst) =>
     \A h \in Node : phase[h] = "published" =>
        /\ \A t \in sc.single[h] \ {h} : fS[h][t] = Raw(t)
        /\ \A t \in sc.slice[h] \ {h} : \E i \in 1..Len(fL[h]) : fL[h][i] = Raw(t)
        /\ Len(fL[h]) = Cardinality(sc.slice[h] \ {h})
C02_NoSelfWire ==
  \A h \in Node : /\ fS[h][h] = NoV \/ fS[h][h].o # "raw"
                  /\ \A i \in 1..Len(fL[h]) : ~IsSelf(h, fL[h][i])
C02_NoReentry == /\ \A i, j \in 1..Len(stack) : i # j => stack[i].n # stack[j].n
                 /\ Len(stack) <= N
Termination == <>(status \in {"done", "failed"})

\* ---- C04: singleton cache protocol
C04_EarlyOnce == \A n \in Node : earlyRuns[n] <= 1
C04_OneEarlyRef == \A n \in Node : Cardinality(seen[n]) <= 1
C04_PublishedClean == \A n \in Node : L1[n] # NoV => (L2[n] = NoV /\ n \notin L3 /\ n \notin inCr)
C04_PublishedStable == C01_PublishedStable
C04_CleanFailure ==
  (Quiescent /\ status \in {"failed", "done"}) => (inCr = {} /\ L3 = {} /\ \A n \in Node : L2[n] = NoV)
\* once nothing is in creation, a lookup finds only published versions (never a half-built one)
C04_NoHalfBuilt ==
  (Quiescent /\ status \in {"failed", "done"}) => \A t \in Node : Lookup(t).found => L1[t] # NoV

\* ---- C05: lifecycle
C05_Once ==          \* a retry after a failed attempt necessarily repeats callbacks: per successful start only
  ~failedEver => \A n \in Node :
     /\ phase[n] = "published" => \A c \in Callbacks : cnt[n][c] = (IF c \in Reached(sc.mode[n]) THEN 1 ELSE 0)
     /\ phase[n] = "new" => \A c \in Callbacks : cnt[n][c] = 0
C05_InitOnce == \A n \in Node : ~failedEver => cnt[n]["init"] <= 1

\* a LazyInit post-processor that nothing needs is never initialised; an eager one exactly once, before the refresh
C05_LazyProcs == \A p \in 1..Len(sc.procs) : (sc.procs[p] => pinit[p] = 0) /\ pinit[p] <= 1
C05_ProcsBeforeRefresh == (\E n \in Node : phase[n] # "new") => \A p \in 1..Len(sc.procs) : sc.procs[p] \/ pinit[p] = 1

\* graph helpers (scenario only)
Edges(s) == {<<h, t>> \in Node \X Node : t # h /\ ((s.mode[h] # "shortcut" /\ (t \in s.single[h] \/ t \in s.slice[h]))
                                                   \/ (s.mode[h] = "normal" /\ s.ilook[h] = t))}
RECURSIVE ReachSet(_, _, _)
ReachSet(s, frontier, seenSet) ==
  IF frontier = {} THEN seenSet
  ELSE LET nxt == {t \in Node : \E h \in frontier : <<h, t>> \in Edges(s)} \ seenSet
       IN ReachSet(s, nxt, seenSet \cup nxt)
Reach(s, a) == ReachSet(s, {a}, {})            \* nodes reachable from a by >= 1 edge
DirectDeps(s, n) == {t \in Node : <<n, t>> \in Edges(s)}
EagerReach(s) == LET eager == (Node \ s.lazy) \cup SeqRange(s.rorder) IN eager \cup UNION {Reach(s, e) : e \in eager}

\* when Init(n) runs, every dependency that does not depend back on n is fully initialised
C05_DepsFirst ==
  [][(stack # <<>> /\ Top.pc = "init" /\ cnt'[Top.n]["init"] = cnt[Top.n]["init"] + 1) =>
        \A d \in DirectDeps(sc, Top.n) : (Top.n \notin Reach(sc, d)) => phase[d] = "published"]_vars
\* when the before-initialization callback of n runs, all of n's points are populated
C05_PopulatedBeforeInit ==
  [][(stack # <<>> /\ cnt'[Top.n]["before"] = cnt[Top.n]["before"] + 1) =>
        LET h == Top.n IN
        /\ \A t \in sc.single[h] \ {h} : fS[h][t] # NoV
        /\ \A t \in sc.slice[h] \ {h} : \E i \in 1..Len(fL[h]) : fL[h][i].n = t]_vars
\* on success a node was created iff it is eager or reachable from an eager node
C05_Lazy == (Started /\ lookups = 0) => \A n \in Node : (phase[n] = "published") <=> (n \in EagerReach(sc))

\* without substitution/faults, failure iff some created holder has a required point only it can satisfy
C02_FailIffSelfOnly ==
  (Quiescent /\ NoSubst /\ status \in {"done", "failed"} /\ lookups = 0) =>
     ((status = "failed") <=> (\E h \in EagerReach(sc) : SelfOnly(sc, h)))

\* ---- C13 (on the engine): runners once, only after every needed component is published, none after an error
C13_Once == \A i, j \in 1..Len(ran) : i # j => ran[i] # ran[j]
C13_AfterReady == ran # <<>> => (stack = <<>> /\ queue = <<>> /\ \A n \in EagerReach(sc) : phase[n] = "published")
C13_StopAtError == \A i \in 1..Len(ran) : sc.fail[ran[i]] = "run" => i = Len(ran)
C09_NoRunnerAfterFailure == [][Len(ran') > Len(ran) => (status = "refresh" /\ ~failedEver)]_vars

\* ---- C09: any injected fault reachable from an eager node fails the start (as an error, see the trace spec for panics)
\* (a shortcut component fetches nothing, so what lies behind it is not reached through it)
FaultReached(s) == \E n \in EagerReach(s) : s.fail[n] \in Reached(s.mode[n])
C09_FaultFails == (Quiescent /\ status = "done" /\ lookups = 0) => (~FaultReached(sc) /\ \A n \in SeqRange(sc.rorder) : sc.fail[n] # "run")
=============================================================================
