--------------------------- MODULE MCRegistry ---------------------------
(* Five objects: 1 and 2 share a custom name, 3 has its own, 4 and 5 are two instances of one type without a   *)
(* custom name (same default name).  Every registration / lookup sequence up to MaxOps is explored and exported. *)
EXTENDS Registry
NameOfDef == [o \in {1, 2, 3, 4, 5, 6, 7} |-> CASE o \in {1, 2} -> "shared" [] o = 3 -> "own" [] o \in {6, 7} -> "zname" [] OTHER -> "plain"]
=============================================================================
