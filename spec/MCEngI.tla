--------------------------- MODULE MCEngI ---------------------------
(* Family I: components whose Init() looks another component up by name (sc.ilook): every single-valued graph x lazy subset x  *)
(* lookup assignment x wrap modes none / early / after.  A lazy target that depends back on the asking component closes the   *)
(* cycle during INITIALISATION: the asking component's early-reference factory is still registered then, so the early         *)
(* reference is first obtained after population - and a component without injection points is reached the same way.           *)
(* One family per module: TLC evaluates constant definitions when a module is loaded.          *)
EXTENDS Container

AllFalse == [n \in Node |-> FALSE]
NoFail == [n \in Node |-> "none"]
Empty == [n \in Node |-> {}]
IWraps == {"none", "early", "after"}
NoSelfGraphs == {x \in [Node -> SUBSET Node] : \A n \in Node : n \notin x[n]}
WrapAssignments == IF N <= 2 THEN [Node -> IWraps] ELSE {w \in [Node -> IWraps] : Cardinality({n \in Node : w[n] # "none"}) <= 1}
Fam == {[single |-> g, selfOpt |-> AllFalse, slice |-> Empty, sliceOpt |-> AllFalse, lazy |-> lz, wrap |-> w, fail |-> NoFail, procs |-> <<>>,
         mode |-> [n \in Node |-> "normal"], rorder |-> <<>>, ilook |-> il] :
          g \in NoSelfGraphs, lz \in SUBSET Node, w \in WrapAssignments, il \in [Node -> 0..N]}
=============================================================================
