--------------------------- MODULE Placeholder ---------------------------
(***************************************************************************)
(* Placeholder resolution of go-kid/ioc as a rewriting machine over        *)
(* character sequences: el.ReplaceAllContent (util/el/el.go) with the      *)
(* callback of the config-quote processor                                  *)
(* (container/processors/config_quote_aware_post_processors.go).           *)
(* One Step = one loop iteration = one Configure.Get(key):                 *)
(*   - the leftmost match of \$\{[^{}]*\} (hence an innermost placeholder) *)
(*   - its content is split at the first ":" into key and default          *)
(*   - the replacement is the configured value of key when present (an     *)
(*     empty map or list counts as absent), otherwise the default          *)
(* The loop is bounded: after MaxSteps replacements a remaining            *)
(* placeholder is an error (fix F8; the code at the pinned commit looped   *)
(* forever on circular or self-growing values).                            *)
(***************************************************************************)
EXTENDS Integers, Sequences, FiniteSets, TLC

CONSTANTS Scenarios,  \* records [text, cfg: [keys, vals, kinds]]
          MaxSteps    \* bound on replacements per tag (1000 in the code)
VARIABLES sc, s, steps, status
vars == <<sc, s, steps, status>>
\* status: "run" | "ok" | "err"

\* leftmost match of \$\{[^{}]*\}: <<i, j>> = positions of "$" and of the closing "}", or <<0, 0>>.
\* (written with set comprehensions rather than recursion: texts reach ~1000 characters on diverging runs)
MinOf(S) == CHOOSE x \in S : \A y \in S : x <= y
CloseFrom(str, j) ==          \* from j on: the first brace must be a "}" ; 0 if there is none or it is a "{"
  LET braces == {k \in j..Len(str) : str[k] = "}" \/ str[k] = "{"} IN
  IF braces = {} THEN 0 ELSE LET k == MinOf(braces) IN IF str[k] = "}" THEN k ELSE 0
Match(str) ==
  LET opens == {i \in 1..(Len(str) - 2) : str[i] = "$" /\ str[i + 1] = "{"}
      good == {i \in opens : CloseFrom(str, i + 2) # 0} IN
  IF good = {} THEN <<0, 0>> ELSE LET i == MinOf(good) IN <<i, CloseFrom(str, i + 2)>>
HasMatch(str) == Match(str) # <<0, 0>>

ColonAt(c, k) == LET cs == {x \in k..Len(c) : c[x] = ":"} IN IF cs = {} THEN 0 ELSE MinOf(cs)

\* configured value of key: present only for string values; an empty map / empty list counts as absent
Lookup(cfg, key) ==
  IF \E i \in 1..Len(cfg.keys) : cfg.keys[i] = key /\ cfg.kinds[i] = "str"
  THEN [present |-> TRUE, v |-> cfg.vals[CHOOSE i \in 1..Len(cfg.keys) : cfg.keys[i] = key]]
  ELSE [present |-> FALSE, v |-> <<>>]

\* an empty collection configured under key (it counts as absent when a default is to be chosen)
EmptyColl(cfg, key) ==
  IF \E i \in 1..Len(cfg.keys) : cfg.keys[i] = key /\ cfg.kinds[i] = "emap" THEN <<"{", "}">>
  ELSE IF \E i \in 1..Len(cfg.keys) : cfg.keys[i] = key /\ cfg.kinds[i] = "elist" THEN <<"[", "]">>
  ELSE <<>>
\* key and replacement text for the placeholder content c (between "${" and "}").
\* Modelled deviation: when the key holds an empty map / list and the placeholder has no (or an empty)
\* default, the code renders the empty collection itself ("{}" / "[]") - an empty value of that type.
Replacement(cfg, c) ==
  LET k == ColonAt(c, 1)
      key == IF k = 0 THEN c ELSE SubSeq(c, 1, k - 1)
      def == IF k = 0 THEN <<>> ELSE SubSeq(c, k + 1, Len(c))
      r == Lookup(cfg, key)
  IN [key |-> key, text |-> IF r.present THEN r.v ELSE IF def # <<>> THEN def ELSE EmptyColl(cfg, key), usedDefault |-> ~r.present]
\* (the match m is computed once per step and passed on: texts grow to ~1000 characters on diverging runs)
ContentAt(str, m) == SubSeq(str, m[1] + 2, m[2] - 1)
Content(str) == ContentAt(str, Match(str))
KeyAt(str, cfg, m) == Replacement(cfg, ContentAt(str, m)).key
RewriteAt(str, cfg, m) == SubSeq(str, 1, m[1] - 1) \o Replacement(cfg, ContentAt(str, m)).text \o SubSeq(str, m[2] + 1, Len(str))
Rewrite(str, cfg) == RewriteAt(str, cfg, Match(str))

InitWith(x) == sc = x /\ s = x.text /\ steps = 0 /\ status = "run"
Init == \E x \in Scenarios : InitWith(x)

\* EVENT get(key)
StepAt(m) ==
  /\ status = "run" /\ m # <<0, 0>> /\ steps < MaxSteps
  /\ s' = RewriteAt(s, sc.cfg, m)
  /\ steps' = steps + 1 /\ UNCHANGED <<sc, status>>
Step == LET m == Match(s) IN StepAt(m)
\* EVENT end(ok, final)
Finish == status = "run" /\ ~HasMatch(s) /\ status' = "ok" /\ UNCHANGED <<sc, s, steps>>
\* EVENT end(err): the bound is reached with a placeholder left
Overflow == status = "run" /\ HasMatch(s) /\ steps = MaxSteps /\ status' = "err" /\ UNCHANGED <<sc, s, steps>>
Next == Step \/ Finish \/ Overflow
Spec == Init /\ [][Next]_vars
LiveSpec == Spec /\ WF_vars(Next)

\* ================================================================== properties
\* big-step meaning of a text: rewrite until no placeholder is left (fuel = the bound)
RECURSIVE Den(_, _, _)
Den(str, cfg, fuel) ==
  LET m == Match(str) IN
  IF m = <<0, 0>> THEN [ok |-> TRUE, s |-> str]
  ELSE IF fuel = 0 THEN [ok |-> FALSE, s |-> str]
  ELSE LET nxt == RewriteAt(str, cfg, m) IN Den(nxt, cfg, fuel - 1)
C16_Denotation == status = "ok" => (Den(sc.text, sc.cfg, MaxSteps).ok /\ s = Den(sc.text, sc.cfg, MaxSteps).s /\ ~HasMatch(s))
C16_ErrorOnlyWhenUnresolvable == status = "err" => ~Den(sc.text, sc.cfg, MaxSteps).ok
\* each step replaces by the configured value when there is one, else by the default (the rule itself)
C16_Default ==
  [][(steps' = steps + 1) =>
       LET c == Content(s)  k == ColonAt(c, 1)
           key == IF k = 0 THEN c ELSE SubSeq(c, 1, k - 1)
           m == Match(s)
           conf == {i \in 1..Len(sc.cfg.keys) : sc.cfg.keys[i] = key /\ sc.cfg.kinds[i] = "str"}
           def == IF k = 0 THEN <<>> ELSE SubSeq(c, k + 1, Len(c))
           mid == IF conf # {} THEN sc.cfg.vals[CHOOSE i \in conf : TRUE]
                  ELSE IF def # <<>> THEN def ELSE EmptyColl(sc.cfg, key)
       IN s' = SubSeq(s, 1, m[1] - 1) \o mid \o SubSeq(s, m[2] + 1, Len(s))]_vars
C16_Bounded == steps <= MaxSteps
C16_Terminates == <>(status \in {"ok", "err"})
=============================================================================
