--------------------------- MODULE TagGrammar ---------------------------
(***************************************************************************)
(* The tag argument grammar of go-kid/ioc (component_definition/arg.go:    *)
(* TagArg.Parse / Set / formatArgType / Has; property.go: IsRequired) over *)
(* token strings.  Separator tokens are single bytes and word tokens       *)
(* contain no separator, so token-level splitting coincides with the       *)
(* byte-level splitting of the code (which compares single ASCII bytes).   *)
(*   value      = text before the first top-level ","                      *)
(*   argument   = segment name=v1 v2 ... ; the name is matched regardless  *)
(*                of the case of its first letter; values are split at     *)
(*                top-level spaces; a later argument of the same name      *)
(*                replaces an earlier one; bracketed groups are not split  *)
(* "Top level" is what the splitter means: ONE depth counter for all       *)
(* bracket characters.  The faithful part is claimed for WELL-FORMED tags  *)
(* (balanced, and balanced on both sides of the first "=" of each          *)
(* segment: that split is not bracket-aware in the code); totality (no     *)
(* panic) for every string.                                                *)
(***************************************************************************)
EXTENDS Integers, Sequences, FiniteSets, TLC

Left == {"(", "[", "{"}
Right == {")", "]", "}"}

\* strings2.Split(s, sep, DefaultSplitBlock) on balanced input: split at sep where depth = 0
RECURSIVE SplitTopR(_, _, _, _, _)
SplitTopR(s, sep, i, depth, cur) ==
  IF i > Len(s) THEN <<cur>>
  ELSE LET c == s[i] IN
       IF c \in Left THEN SplitTopR(s, sep, i + 1, depth + 1, Append(cur, c))
       ELSE IF c \in Right THEN SplitTopR(s, sep, i + 1, depth - 1, Append(cur, c))
       ELSE IF c = sep /\ depth = 0 THEN <<cur>> \o SplitTopR(s, sep, i + 1, depth, <<>>)
       ELSE SplitTopR(s, sep, i + 1, depth, Append(cur, c))
SplitTop(s, sep) == SplitTopR(s, sep, 1, 0, <<>>)

RECURSIVE FirstEq(_, _)
FirstEq(s, i) == IF i > Len(s) THEN 0 ELSE IF s[i] = "=" THEN i ELSE FirstEq(s, i + 1)

Balanced(s) ==
  LET RECURSIVE B(_, _)
      B(i, d) == IF d < 0 THEN FALSE ELSE IF i > Len(s) THEN d = 0
                 ELSE B(i + 1, IF s[i] \in Left THEN d + 1 ELSE IF s[i] \in Right THEN d - 1 ELSE d)
  IN B(1, 0)

\* the faithful part of the contract is claimed for well-formed tags: the whole tag is balanced and, in
\* every argument segment, the text before the first "=" and the text after it are balanced too
\* (the name/value split at the first "=" is not bracket-aware in the code)
SegOK(seg) == LET k == FirstEq(seg, 1) IN
  IF k = 0 THEN Balanced(seg) ELSE Balanced(SubSeq(seg, 1, k - 1)) /\ Balanced(SubSeq(seg, k + 1, Len(seg)))
WellFormed(tag) == Balanced(tag) /\ LET segs == SplitTop(tag, ",") IN \A i \in 2..Len(segs) : SegOK(segs[i])

\* formatArgType: upper-case the first byte of the name (a name is a token sequence)
Cap(tok) == CASE tok = "required" -> "Required" [] tok = "x" -> "X" [] tok = "false" -> "False"
              [] tok = "qualifier" -> "Qualifier" [] OTHER -> tok
FormatName(name) == IF name = <<>> THEN name ELSE <<Cap(name[1])>> \o SubSeq(name, 2, Len(name))

\* Parse: value part + argument map as a sequence of [name, vals] with later Set overwriting earlier
Segments(tag) == SplitTop(tag, ",")
Value(tag) == Segments(tag)[1]
ArgOf(seg) ==
  LET k == FirstEq(seg, 1) IN
  IF k = 0 THEN [name |-> FormatName(seg), vals |-> <<<<>>>>]
  ELSE [name |-> FormatName(SubSeq(seg, 1, k - 1)), vals |-> SplitTop(SubSeq(seg, k + 1, Len(seg)), " ")]
ArgSeq(tag) == LET segs == Segments(tag) IN
  SelectSeq([i \in 1..(Len(segs) - 1) |-> ArgOf(segs[i + 1])], LAMBDA a : a.name # <<>>)
\* the map: last occurrence of a name wins
Args(tag) == LET a == ArgSeq(tag) IN
  {a[i] : i \in {j \in 1..Len(a) : \A k \in (j + 1)..Len(a) : a[k].name # a[j].name}}
IsRequired(tag) == ~(\E a \in Args(tag) : a.name = <<"Required">> /\ \E i \in 1..Len(a.vals) : a.vals[i] = <<"false">>)

\* ---------------------------------------------------------------- declarative statements about the grammar
Lower(tok) == CASE tok = "Required" -> "required" [] tok = "X" -> "x" [] tok = "False" -> "false"
                [] tok = "Qualifier" -> "qualifier" [] OTHER -> tok
SameName(a, b) == a # <<>> /\ b # <<>> /\ Len(a) = Len(b) /\ Lower(a[1]) = Lower(b[1]) /\ SubSeq(a, 2, Len(a)) = SubSeq(b, 2, Len(b))
\* the value is the text before the first top-level comma, and re-joining the segments gives the tag back
RECURSIVE Join(_, _)
Join(segs, i) == IF i > Len(segs) THEN <<>> ELSE (IF i = 1 THEN <<>> ELSE <<",">>) \o segs[i] \o Join(segs, i + 1)
C19_SplitLossless(tag) == Join(Segments(tag), 1) = tag
C19_ValuePrefix(tag) == LET v == Value(tag) IN SubSeq(tag, 1, Len(v)) = v /\ (Len(v) < Len(tag) => tag[Len(v) + 1] = ",")
\* bracketed groups are never split: every value of every argument of a well-formed tag is balanced
C19_GroupsKept(tag) == WellFormed(tag) => \A a \in Args(tag) : \A i \in 1..Len(a.vals) : Balanced(a.vals[i])
\* names are matched regardless of the case of their first letter: no two stored arguments share a name up to that
C19_CaseFolded(tag) == \A a, b \in Args(tag) : SameName(a.name, b.name) => a = b
\* only an explicit required=false makes a point optional
ExplicitFalse(tag) ==
  LET segs == Segments(tag)
      named == {i \in 2..Len(segs) : LET k == FirstEq(segs[i], 1) IN
                  SameName(IF k = 0 THEN segs[i] ELSE SubSeq(segs[i], 1, k - 1), <<"required">>)} IN
  named # {} /\ LET i == CHOOSE x \in named : \A y \in named : y <= x        \* the last one counts
                     k == FirstEq(segs[i], 1) IN
                 k # 0 /\ \E v \in 1..Len(SplitTop(SubSeq(segs[i], k + 1, Len(segs[i])), " ")) :
                              SplitTop(SubSeq(segs[i], k + 1, Len(segs[i])), " ")[v] = <<"false">>
C19_RequiredOnlyFalse(tag) == WellFormed(tag) => (IsRequired(tag) <=> ~ExplicitFalse(tag))
=============================================================================
