--------------------------- MODULE App ---------------------------
(***************************************************************************)
(* App.Run as a phase machine, and App.Close as a fork/join                *)
(* (app/app.go, configure/configure.go loadConfigure,                      *)
(*  container/factory/post_processor_registration_delegate.go).            *)
(*                                                                         *)
(*   configuration : loaders in the ordering contract's sequence; a        *)
(*                   failing loader fails the start                        *)
(*   refresh       : K plain components are created in name order; each    *)
(*                   gets before-init callbacks from every user processor  *)
(*                   in the contract's sequence, its Init, then the        *)
(*                   after-init callbacks in the same sequence             *)
(*   runners       : in the contract's sequence, stop at the first error   *)
(*   close         : one goroutine per closer, Close() begins and ends in  *)
(*                   any interleaving, App.Close returns after all ended   *)
(*                                                                         *)
(* Every action is one event the harness can observe (a callback firing).  *)
(***************************************************************************)
EXTENDS Ordering, TLC

CONSTANT Scenarios
VARIABLES sc, loaded, ci, stage, pdone, ran, status, cst, closeRet, initCnt, early
vars == <<sc, loaded, ci, stage, pdone, ran, status, cst, closeRet, initCnt, early>>
\* early  : processors whose GetEarlyBeanReference callback has been invoked (sc.cycle: the first component closes a dependency
\*          cycle with a component created before it, so that component's early reference is requested while the first one is
\*          populated - one more place where the container walks the post-processors in the contract's sequence)
\* loaded : loaders invoked so far (sequence of indices)   ci : component being initialised (1..K+1)
\* stage  : "before" | "init" | "after"                    pdone : processors invoked in this stage
\* ran    : runners invoked so far                          status : "run" | "failed" | "ok" | "err"
\* cst    : per closer "idle" | "begun" | "ended"           closeRet : App.Close returned

NL == Len(sc.loaders)  NP == Len(sc.procs)  NR == Len(sc.runners)  NC == Len(sc.closers)  K == sc.comps
FirstStage(s) == IF Len(s.procs) = 0 THEN "init" ELSE "before"

InitWith(s) ==
  /\ sc = s /\ loaded = <<>> /\ ci = 1 /\ stage = FirstStage(s) /\ pdone = <<>> /\ ran = <<>>
  /\ status = "run" /\ cst = [j \in 1..Len(s.closers) |-> "idle"] /\ closeRet = FALSE
  /\ initCnt = [c \in 1..s.comps |-> 0] /\ early = <<>>
Init == \E s \in Scenarios : InitWith(s)

ConfigDone == Len(loaded) = NL
\* EVENT load(i, ok)
Load(i) ==
  /\ status = "run" /\ ~ConfigDone /\ NextAllowed(sc.loaders, loaded, i)
  /\ loaded' = Append(loaded, i)
  /\ status' = IF sc.loaders[i].fail THEN "failed" ELSE status
  /\ UNCHANGED <<sc, ci, stage, pdone, ran, cst, closeRet, initCnt, early>>

Creating == status = "run" /\ ConfigDone /\ ci <= K
\* EVENT early(p): before the first component's own callbacks start, every processor has handed out the early reference
EarlyDone == ~sc.cycle \/ ci # 1 \/ Len(early) = NP
Early(p) ==
  /\ Creating /\ sc.cycle /\ ci = 1 /\ stage = FirstStage(sc) /\ pdone = <<>> /\ initCnt[1] = 0
  /\ Len(early) < NP /\ NextAllowed(sc.procs, early, p)
  /\ early' = Append(early, p)
  /\ UNCHANGED <<sc, loaded, ci, stage, pdone, ran, status, cst, closeRet, initCnt>>
\* EVENT before(c, p)
Before(p) ==
  /\ Creating /\ EarlyDone /\ stage = "before" /\ NextAllowed(sc.procs, pdone, p)
  /\ IF Len(pdone) + 1 = NP THEN stage' = "init" /\ pdone' = <<>> ELSE pdone' = Append(pdone, p) /\ UNCHANGED stage
  /\ UNCHANGED <<sc, loaded, ci, ran, status, cst, closeRet, initCnt, early>>
\* EVENT init(c, ok)
InitC ==
  /\ Creating /\ EarlyDone /\ stage = "init"
  /\ initCnt' = [initCnt EXCEPT ![ci] = @ + 1]
  /\ IF sc.initFail = ci THEN status' = "failed" /\ UNCHANGED <<ci, stage>>
     ELSE /\ UNCHANGED status
          /\ IF NP = 0 THEN ci' = ci + 1 /\ UNCHANGED stage ELSE stage' = "after" /\ UNCHANGED ci
  /\ UNCHANGED <<sc, loaded, pdone, ran, cst, closeRet, early>>
\* EVENT after(c, p)
After(p) ==
  /\ Creating /\ stage = "after" /\ NextAllowed(sc.procs, pdone, p)
  /\ IF Len(pdone) + 1 = NP THEN stage' = "before" /\ pdone' = <<>> /\ ci' = ci + 1
     ELSE pdone' = Append(pdone, p) /\ UNCHANGED <<stage, ci>>
  /\ UNCHANGED <<sc, loaded, ran, status, cst, closeRet, initCnt, early>>

Ready == status = "run" /\ ConfigDone /\ ci = K + 1
\* EVENT run(i, ok)
RunnerRun(i) ==
  /\ Ready /\ NextAllowed(sc.runners, ran, i)
  /\ ran' = Append(ran, i)
  /\ status' = IF sc.runners[i].fail THEN "failed" ELSE status
  /\ UNCHANGED <<sc, loaded, ci, stage, pdone, cst, closeRet, initCnt, early>>
\* EVENT runReturn(ok)
RunReturn ==
  /\ \/ status = "failed" /\ status' = "err"
     \/ Ready /\ Len(ran) = NR /\ status' = "ok"
  /\ UNCHANGED <<sc, loaded, ci, stage, pdone, ran, cst, closeRet, initCnt, early>>

\* ---- App.Close (after a successful start)
CloserBegin(j) == /\ j \in 1..NC /\ status = "ok" /\ ~closeRet /\ cst[j] = "idle" /\ cst' = [cst EXCEPT ![j] = "begun"]
                  /\ UNCHANGED <<sc, loaded, ci, stage, pdone, ran, status, closeRet, initCnt, early>>
CloserEnd(j)   == /\ j \in 1..NC /\ cst[j] = "begun" /\ cst' = [cst EXCEPT ![j] = "ended"]
                  /\ UNCHANGED <<sc, loaded, ci, stage, pdone, ran, status, closeRet, initCnt, early>>
CloseReturn    == /\ status = "ok" /\ ~closeRet /\ \A j \in 1..NC : cst[j] = "ended"
                  /\ closeRet' = TRUE
                  /\ UNCHANGED <<sc, loaded, ci, stage, pdone, ran, status, cst, initCnt, early>>

Next == \/ \E i \in 1..NL : Load(i)
        \/ \E p \in 1..NP : Before(p) \/ After(p) \/ Early(p)
        \/ InitC
        \/ \E i \in 1..NR : RunnerRun(i)
        \/ RunReturn
        \/ \E j \in 1..NC : CloserBegin(j) \/ CloserEnd(j)
        \/ CloseReturn
Spec == Init /\ [][Next]_vars
FairSpec == Spec /\ WF_vars(CloseReturn) /\ \A j \in 1..4 : WF_vars(CloserBegin(j)) /\ WF_vars(CloserEnd(j))

\* ================================================================ properties
\* C12 (call sites): the invocation sequences are prefixes of sorted permutations
C12_Loaders == IsSortedPrefix(loaded, sc.loaders)
C12_Runners == IsSortedPrefix(ran, sc.runners)
C12_Procs   == IsSortedPrefix(pdone, sc.procs)
C12_Early   == IsSortedPrefix(early, sc.procs)
\* C13
C13_Once == \A a, b \in 1..Len(ran) : a # b => ran[a] # ran[b]
C13_All == status = "ok" => Range(ran) = 1..NR
C13_AfterReady == ran # <<>> => (ci = K + 1 /\ \A c \in 1..K : initCnt[c] = 1)
C13_StopAtError == \A a \in 1..Len(ran) : sc.runners[ran[a]].fail => a = Len(ran)
FaultHit == (\E a \in 1..Len(ran) : sc.runners[ran[a]].fail)
            \/ (\E b \in 1..Len(loaded) : sc.loaders[loaded[b]].fail)
            \/ (sc.initFail \in 1..K /\ initCnt[sc.initFail] > 0)
C13_ErrorReported == (status \in {"ok", "err"}) => ((status = "err") <=> FaultHit)
\* C09 (application level): a failing loader / Init / runner yields an error and no (further) runner
C09_NoRunnerAfterFailure ==
  ((\E b \in 1..Len(loaded) : sc.loaders[loaded[b]].fail) \/ (sc.initFail \in 1..K /\ initCnt[sc.initFail] > 0)) => ran = <<>>
C05_InitOnce == \A c \in 1..K : initCnt[c] <= 1
\* C14
C14_WaitsAll == closeRet => \A j \in 1..NC : cst[j] = "ended"
C14_Once == [][\A j \in 1..NC : (cst[j] = "ended" => cst'[j] = "ended") /\ (cst[j] = "begun" => cst'[j] # "idle")]_vars
\* a failing or slow closer never disables another closer's Close()
C14_Isolation == \A j \in 1..NC : (status = "ok" /\ ~closeRet /\ cst[j] = "idle") => ENABLED CloserBegin(j)
C14_AllEventually == (status = "ok") ~> closeRet
=============================================================================
