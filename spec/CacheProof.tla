--------------------------- MODULE CacheProof ---------------------------
(***************************************************************************)
(* Unbounded safety of the singleton cache protocol (C04), for ANY set of  *)
(* names and ANY values: an inductive invariant of an abstraction of       *)
(* Cache.tla, checked by the TLA+ proof system (tlapm).                    *)
(* Abstraction (an over-approximation, so what is proved here holds for    *)
(* Cache.tla): the stack `open` is a set (any open creation may add its    *)
(* factory or end), values are arbitrary elements of Vals, the operation    *)
(* budget, counters and history are dropped.  CleanupOnError = TRUE        *)
(* (the repaired code, fix F4).                                            *)
(***************************************************************************)
EXTENDS TLAPS
CONSTANTS Names, Vals, None
ASSUME NoneNotVal == None \notin Vals

VARIABLES L1, L2, L3, inCr, open
vars == <<L1, L2, L3, inCr, open>>

Init == /\ L1 = [n \in Names |-> None] /\ L2 = [n \in Names |-> None]
        /\ L3 = {} /\ inCr = {} /\ open = {}

\* GetSingleton(n, TRUE) running the early-reference factory successfully
GetEarly(n, v) == /\ n \in Names /\ v \in Vals
                  /\ L1[n] = None /\ L2[n] = None /\ n \in L3
                  /\ L2' = [L2 EXCEPT ![n] = v] /\ L3' = L3 \ {n}
                  /\ UNCHANGED <<L1, inCr, open>>
CreateBegin(n) == /\ n \in Names /\ n \notin open /\ L1[n] = None
                  /\ inCr' = inCr \cup {n} /\ open' = open \cup {n}
                  /\ UNCHANGED <<L1, L2, L3>>
AddFactory(n) == /\ n \in open
                 /\ L3' = L3 \cup {n}
                 /\ UNCHANGED <<L1, L2, inCr, open>>
CreateEndOk(n, v) == /\ n \in open /\ v \in Vals
                     /\ L1' = [L1 EXCEPT ![n] = v] /\ L2' = [L2 EXCEPT ![n] = None]
                     /\ L3' = L3 \ {n} /\ inCr' = inCr \ {n} /\ open' = open \ {n}
CreateEndErr(n) == /\ n \in open
                   /\ L2' = [L2 EXCEPT ![n] = None] /\ L3' = L3 \ {n}
                   /\ inCr' = inCr \ {n} /\ open' = open \ {n}
                   /\ UNCHANGED L1
Remove(n) == /\ n \in Names /\ n \notin open
             /\ L1' = [L1 EXCEPT ![n] = None] /\ L2' = [L2 EXCEPT ![n] = None]
             /\ L3' = L3 \ {n} /\ inCr' = inCr \ {n}
             /\ UNCHANGED open
Next == \E n \in Names :
          \/ CreateBegin(n) \/ AddFactory(n) \/ CreateEndErr(n) \/ Remove(n)
          \/ \E v \in Vals : GetEarly(n, v) \/ CreateEndOk(n, v)
Spec == Init /\ [][Next]_vars

TypeOK == /\ L1 \in [Names -> Vals \cup {None}] /\ L2 \in [Names -> Vals \cup {None}]
          /\ L3 \subseteq Names /\ inCr \subseteq Names /\ open \subseteq Names
PublishedClean == \A n \in Names : L1[n] # None => (L2[n] = None /\ n \notin L3 /\ n \notin inCr)
CleanFailure == \A n \in Names : (n \notin open /\ L1[n] = None) => (L2[n] = None /\ n \notin L3 /\ n \notin inCr)
MarkedWhileOpen == \A n \in Names : n \in open => (n \in inCr /\ L1[n] = None)
Inv == TypeOK /\ PublishedClean /\ CleanFailure /\ MarkedWhileOpen

THEOREM InitInv == Init => Inv
  BY DEF Init, Inv, TypeOK, PublishedClean, CleanFailure, MarkedWhileOpen

THEOREM NextInv == Inv /\ [Next]_vars => Inv'
<1> SUFFICES ASSUME Inv, [Next]_vars PROVE Inv'
  OBVIOUS
<1>1. CASE UNCHANGED vars
  BY <1>1 DEF Inv, TypeOK, PublishedClean, CleanFailure, MarkedWhileOpen, vars
<1>2. ASSUME NEW n \in Names, CreateBegin(n) PROVE Inv'
  BY <1>2 DEF Inv, TypeOK, PublishedClean, CleanFailure, MarkedWhileOpen, CreateBegin
<1>3. ASSUME NEW n \in Names, AddFactory(n) PROVE Inv'
  BY <1>3 DEF Inv, TypeOK, PublishedClean, CleanFailure, MarkedWhileOpen, AddFactory
<1>4. ASSUME NEW n \in Names, CreateEndErr(n) PROVE Inv'
  BY <1>4 DEF Inv, TypeOK, PublishedClean, CleanFailure, MarkedWhileOpen, CreateEndErr
<1>5. ASSUME NEW n \in Names, Remove(n) PROVE Inv'
  BY <1>5 DEF Inv, TypeOK, PublishedClean, CleanFailure, MarkedWhileOpen, Remove
<1>6. ASSUME NEW n \in Names, NEW v \in Vals, GetEarly(n, v) PROVE Inv'
  BY <1>6, NoneNotVal DEF Inv, TypeOK, PublishedClean, CleanFailure, MarkedWhileOpen, GetEarly
<1>7. ASSUME NEW n \in Names, NEW v \in Vals, CreateEndOk(n, v) PROVE Inv'
  BY <1>7, NoneNotVal DEF Inv, TypeOK, PublishedClean, CleanFailure, MarkedWhileOpen, CreateEndOk
<1> QED
  BY <1>1, <1>2, <1>3, <1>4, <1>5, <1>6, <1>7 DEF Next

THEOREM Safety == Spec => []Inv
  BY InitInv, NextInv, PTL DEF Spec
=============================================================================
