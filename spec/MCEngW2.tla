--------------------------- MODULE MCEngW2 ---------------------------
(* Family W2: every graph (pair in none/single/slice) x every assignment of wrap modes x optional slice flags. *)
(* One family per module: TLC evaluates constant definitions when a module is loaded.          *)
EXTENDS Container

AllFalse == [n \in Node |-> FALSE]
AllTrue == [n \in Node |-> TRUE]
NoWrap == [n \in Node |-> "none"]
NoFail == [n \in Node |-> "none"]
Empty == [n \in Node |-> {}]
Disj == {p \in (SUBSET Node) \X (SUBSET Node) : p[1] \cap p[2] = {}}
NoSelfGraphs == {x \in [Node -> SUBSET Node] : \A n \in Node : n \notin x[n]}
Fam == {[single |-> [n \in Node |-> g[n][1]], selfOpt |-> AllFalse, slice |-> [n \in Node |-> g[n][2]],
         sliceOpt |-> so, lazy |-> {}, wrap |-> w, fail |-> NoFail, procs |-> <<>>, mode |-> [n \in Node |-> "normal"], rorder |-> <<>>, ilook |-> NoLook] :
          g \in [Node -> Disj], w \in [Node -> WrapMode], so \in {AllFalse, AllTrue}}
=============================================================================
