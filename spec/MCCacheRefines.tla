--------------------------- MODULE MCCacheRefines ---------------------------
(* Cache.tla refines the abstraction whose inductive invariant is proved in CacheProof.tla: every behaviour of   *)
(* Cache.tla (with the repaired error path) is, under the mapping below, a behaviour of CacheProof!Spec.          *)
EXTENDS Cache
ValSet == {Val(n, kd, k) : n \in Names, kd \in {"early", "final"}, k \in 0..(MaxOps * 11)}
Abs == INSTANCE CacheProof WITH Names <- Names, Vals <- ValSet, None <- None,
                                L1 <- L1, L2 <- L2, L3 <- {n \in Names : L3[n]}, inCr <- inCr,
                                open <- {open[i] : i \in 1..Len(open)}
AbsSpec == Abs!Spec
AbsInv == Abs!Inv
=============================================================================
