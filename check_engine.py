"""Checks for the engine family: C01 C02 C03 C04(engine part) C05 C09(engine part).

(A) exhaustive TLC runs of spec/Container.tla over constructive scenario families;
(B) real go-kid/ioc runs (harness built from /repo, -tags verif) recorded as traces and validated
    by TLC twice: conformance (TraceContainer.tla: the trace is a behaviour of the spec, property
    operators evaluated on every state) and monitor (MonitorContainer.tla: observable forms on the
    recorded snapshots; cannot drift).
"""
import json, os, random, itertools, time, threading
import vlib, engine_lib as el

FIX = dict(FixF4="TRUE", FixF9="TRUE", FixF3="TRUE")
ALL_W = '{"early", "after", "bothDiff", "bothSame", "spring"}'

# property -> operators
MC_INV = {
    "C01": ["C01_Identity", "C04_PublishedClean"],
    "C02": ["C02_Populated", "C02_NoSelfWire", "C02_NoReentry", "C02_FailIffSelfOnly"],
    "C03": ["C03_NoStale", "C04_PublishedClean", "C02_NoReentry"],
    "C04": ["C04_EarlyOnce", "C04_OneEarlyRef", "C04_PublishedClean", "C04_CleanFailure", "C04_NoHalfBuilt"],
    "C05": ["C05_Once", "C05_Lazy", "C05_LazyProcs", "C05_ProcsBeforeRefresh"],
    "C09": ["C09_FaultFails", "C04_CleanFailure", "C13_AfterReady", "C13_StopAtError", "C13_Once"],
}
MC_PROPS = {
    "C01": ["C01_PublishedStable"], "C02": [], "C03": ["C01_PublishedStable"], "C04": ["C04_PublishedStable"],
    "C05": ["C05_DepsFirst", "C05_PopulatedBeforeInit"], "C09": [],
}
TR_PROPS = {k: [("T_PublishedStable" if p.endswith("PublishedStable") else p) for p in v] for k, v in MC_PROPS.items()}
MON_INV = {
    "C01": ["M_C01_Identity", "M_C01_LookupsDuringStart", "M_C04_NoHalfBuilt", "M_C04_PublishedClean", "M_C06_SliceOnce"],
    "C02": ["M_C02_NoReentry", "M_C02_NoSelfWire", "M_C02_Populated", "M_C02_FailIffSelfOnly"],
    "C03": ["M_C03_NoStale", "M_C04_PublishedClean", "M_C02_NoReentry"],
    "C04": ["M_C04_EarlyOnce", "M_C04_OneEarlyRef", "M_C04_PublishedClean", "M_C04_CleanFailure", "M_C04_NoHalfBuilt", "M_C06_SliceOnce",
            "M_C02_NoReentry"],      # a second creation of a name that is in creation: nobody observed "one and the same early reference"
    "C05": ["M_C05_Order", "M_C05_Once", "M_C05_DepsFirst", "M_C05_PopulatedBeforeInit", "M_C05_AllCallbacks", "M_C05_Lazy", "M_C05_Procs"],
    "C09": ["M_C09_NoPanic", "M_C09_FaultFails", "M_C04_CleanFailure", "M_C13_Runners"],
}
MON_PROPS = {"C01": ["M_C01_PublishedStable"], "C02": [], "C03": ["M_C01_PublishedStable"],
             "C04": ["M_C01_PublishedStable"], "C05": [], "C09": []}

# exhaustive families: (module, N, MaxLookups, extra constants, liveness?)
MC_FAMS = {
    ("C01", "quick"): [("MCEngI", 2, 0, {}, False), ("MCEngB", 2, 0, {}, False), ("MCEngA", 3, 0, {}, False), ("MCEngW2", 2, 0, {}, False)],
    ("C01", "thorough"): [("MCEngI", 2, 0, {}, False), ("MCEngA", 3, 0, {}, False), ("MCEngS", 4, 0, {}, False), ("MCEngL2", 3, 0, {}, False), ("MCEngW2", 2, 0, {}, False),
                          ("MCEngB", 3, 0, {}, False)],
    ("C02", "quick"): [("MCEngI", 2, 0, {}, False), ("MCEngT", 2, 0, {"WModes": '{"none", "early"}'}, False), ("MCEngB", 2, 0, {}, True), ("MCEngS", 3, 0, {}, True), ("MCEngL1", 3, 0, {}, False)],
    ("C02", "thorough"): [("MCEngI", 2, 0, {}, False), ("MCEngT", 2, 0, {"WModes": ALL_W}, False), ("MCEngS", 4, 0, {}, True), ("MCEngA", 3, 0, {}, False), ("MCEngL1", 3, 0, {}, False),
                          ("MCEngL2", 3, 0, {}, False), ("MCEngB", 3, 0, {}, False)],
    ("C03", "quick"): [("MCEngI", 2, 0, {}, False), ("MCEngW2", 2, 0, {}, False), ("MCEngT", 2, 0, {"WModes": '{"none", "early", "after"}'}, False),
                       ("MCEngO", 2, 2, {"WModes": '{"none", "early", "after"}'}, False)],
    ("C03", "thorough"): [("MCEngI", 2, 0, {}, False), ("MCEngW2", 2, 0, {}, False), ("MCEngT", 2, 0, {"WModes": ALL_W}, False)] +
                         [("MCEngW3", 3, 0, {"WModes": '{"%s"}' % w}, False) for w in el.WRAPS[1:]] +
                         [("MCEngW3b", 3, 0, {"WModes": ALL_W}, False)],
    ("C04", "quick"): [("MCEngI", 2, 0, {}, False), ("MCEngF2", 2, 2, {}, False), ("MCEngO", 2, 3, {"WModes": '{"none", "after"}'}, False)],
    ("C04", "thorough"): [("MCEngI", 2, 0, {}, False), ("MCEngO", 2, 3, {"WModes": '{"none", "early", "after", "bothDiff"}'}, False), ("MCEngF2", 2, 3, {}, False), ("MCEngF3", 3, 1, {}, False), ("MCEngFW2", 2, 1, {}, False),
                          ("MCEngF3L", 3, 1, {}, False)],
    ("C05", "quick"): [("MCEngI", 2, 0, {}, False), ("MCEngL1", 3, 0, {}, False), ("MCEngL2", 3, 0, {}, False), ("MCEngP", 2, 0, {}, False), ("MCEngM", 2, 0, {}, False)],
    ("C05", "thorough"): [("MCEngI", 2, 0, {}, False), ("MCEngL1", 3, 0, {}, False), ("MCEngL2", 3, 0, {}, False), ("MCEngA", 3, 0, {}, False), ("MCEngP", 3, 0, {}, False), ("MCEngM", 2, 0, {}, False),
                          ("MCEngS", 4, 0, {}, False)],
    ("C09", "quick"): [("MCEngF2", 2, 0, {}, False), ("MCEngM", 2, 0, {}, False)],
    ("C09", "thorough"): [("MCEngF2", 2, 1, {}, False), ("MCEngF3", 3, 0, {}, False), ("MCEngF3L", 3, 0, {}, False),
                          ("MCEngFW2", 2, 0, {}, False)],
}


def model_check(run, prop, tier, workdir):
    """(A) exhaustive exploration.  A counterexample here is about the model only: it is reported as
    infrastructure trouble unless the same property fails on real-code traces (DESIGN 4.3)."""
    notes = []
    for (mod, n, lk, extra, live) in MC_FAMS[(prop, tier)]:
        consts = dict(N=n, MaxLookups=lk, Scenarios="<- Fam", **FIX)
        consts.update(extra)
        tag = "%s_%d_%d_%s" % (mod, n, lk, "".join(c for c in str(extra.get("WModes", "")) if c.isalpha())[:12])
        cfg = tag + ".cfg"
        props = list(MC_PROPS[prop])
        vlib.write_cfg(os.path.join(workdir, cfg), constants=consts, spec="Spec", invariants=MC_INV[prop], properties=props)
        vlib.stage_specs(workdir, ["Container.tla", mod + ".tla"])
        r = vlib.run_tlc(workdir, mod, cfg, workers=8, timeout=3000 if tier == "thorough" else 400, jvm=vlib.JVM_BIG)
        run.add_model_run("%s N=%d lookups=%d %s" % (mod, n, lk, extra or ""), r)
        if not r.ok:
            notes.append((mod, n, r))
            continue
        if live:
            # liveness on the small families only (DESIGN 3.2): start-up terminates
            lcfg = tag + ".live.cfg"
            vlib.write_cfg(os.path.join(workdir, lcfg), constants=consts, spec="LiveSpec", properties=["Termination"])
            r2 = vlib.run_tlc(workdir, mod, lcfg, workers=4, timeout=3000 if tier == "thorough" else 400, jvm=vlib.JVM_BIG)
            run.add_model_run("%s N=%d liveness(Termination)" % (mod, n), r2)
            if not r2.ok:
                notes.append((mod, n, r2))
    return notes


# ------------------------------------------------------------------ scenario sets for the real code
def fam_graphs(n, both=False, single_only=False, slice_only=False):
    """python mirror of the small constructive families (every graph)"""
    nodes = list(range(1, n + 1))
    subsets = [set(c) for k in range(n + 1) for c in itertools.combinations(nodes, k)]
    if single_only:
        per = [(s, set()) for s in subsets]
    elif slice_only:
        per = [(set(), s) for s in subsets]
    elif both:
        per = [(s, l) for s in subsets for l in subsets]
    else:
        per = [(s, l) for s in subsets for l in subsets if not (s & l)]
    for combo in itertools.product(per, repeat=n):
        yield [c[0] for c in combo], [c[1] for c in combo]


def perm(rng, n):
    p = list(range(1, n + 1))
    rng.shuffle(p)
    return p


def scenarios_for(prop, tier, rng):
    thorough = tier == "thorough"
    small, big = [], []       # small: conformance + monitor (dense snapshots); big: monitor only (sparse)
    def add(sc):
        (big if sc["sparse"] else small).append(sc)
    k = 0
    def sid():
        nonlocal k
        k += 1
        return "%s-%d" % (prop, k)
    if prop in ("C01", "C02"):
        # every graph of the N=2 "both" family and a sample (quick) / all (thorough) of N=3 single-only,
        # each under seeded registration / iteration permutations
        for s, l in fam_graphs(2, both=True):
            for _ in range(2):
                add(el.scenario(2, s, l, order=perm(rng, 2), reg_order=perm(rng, 2), lookups=[1, 2] if prop == "C01" else [],
                                seed=rng.randint(0, 2 ** 31), sid=sid()))
        g3 = list(fam_graphs(3, single_only=True))
        for s, l in (g3 if thorough else rng.sample(g3, 200)):
            add(el.scenario(3, s, l, order=perm(rng, 3), reg_order=perm(rng, 3), seed=rng.randint(0, 2 ** 31), sid=sid()))
        ga = list(fam_graphs(3)) if thorough else None
        for s, l in (rng.sample(ga, 4000) if thorough else []):
            add(el.scenario(3, s, l, order=perm(rng, 3), reg_order=perm(rng, 3), seed=rng.randint(0, 2 ** 31), sid=sid()))
        for n, cnt in ([(3, 300), (4, 250), (6, 120), (8, 60)] if not thorough else [(3, 3000), (4, 4000), (5, 2000), (6, 1500), (8, 800)]):
            for _ in range(cnt):
                # C01 also with substituting post-processors: holders on a cycle get an early proxy, and whatever
                # version is published must be the one every holder and every lookup sees
                add(el.rand_scenario(rng, n, p_edge=rng.choice([0.2, 0.35, 0.6]), lookups=2 if prop == "C01" else 0,
                                     opt=(prop == "C02"), wraps=(rng.choice([0, 0.3, 0.6]) if prop == "C01" else False), sid=sid()))
                if prop == "C01" and rng.random() < 0.5:
                    (big if n > 8 else small)[-1]["all"] = True       # finish with Factory.GetComponents over every pool component
        shapes = ["chain", "ring", "rings2", "diamond", "fanin", "cycletail", "dense"]
        sizes = [12, 25, 40] if not thorough else [12, 25, 40, 80, 120, 200]
        for n in sizes:
            for sh in shapes:
                for _ in range(1 if n >= 80 else 2):
                    sc = el.shaped(rng, n, sh)
                    sc["id"] = sid() + "-" + sh
                    add(sc)
        if not thorough:
            # one start with many hundreds of lookups answered from the caches (anything that accumulates per lookup shows)
            for sh in ("dense", "fanin"):
                sc = el.shaped(rng, 90, sh)
                sc["id"] = sid() + "-" + sh
                add(sc)
    if prop == "C03":
        wr = el.WRAPS
        fam = []
        for s, l in fam_graphs(2):
            for w in itertools.product(wr, repeat=2):
                for so in (False, True):
                    fam.append((s, l, list(w), so))
        for s, l, w, so in (fam if thorough else rng.sample(fam, 1200)):
            add(el.scenario(2, s, l, wrap=w, slice_opt=[so, so], order=perm(rng, 2), reg_order=perm(rng, 2),
                            seed=rng.randint(0, 2 ** 31), sid=sid()))
        for n, cnt in ([(3, 500), (4, 300), (6, 100)] if not thorough else [(3, 6000), (4, 6000), (5, 3000), (6, 1500), (8, 500)]):
            for _ in range(cnt):
                add(el.rand_scenario(rng, n, p_edge=rng.choice([0.25, 0.4, 0.6]), wraps=rng.choice([0.2, 0.5]), lookups=2, sid=sid()))
        for n in ([12, 30] if not thorough else [12, 30, 60, 120]):
            for sh in ["ring", "rings2", "cycletail", "fanin", "dense"]:
                sc = el.shaped(rng, n, sh)
                for i in rng.sample(range(n), max(1, n // 6)):
                    sc["wrap"][i] = rng.choice(wr[1:])
                sc["id"] = sid() + "-" + sh
                add(sc)
    if prop in ("C04", "C09"):
        fam = []
        nodes2 = [set(), {1}, {2}, {1, 2}]
        for s1 in nodes2:
            for s2 in nodes2:
                for lz in nodes2:
                    for f in itertools.product(el.FAILS, repeat=2):
                        fam.append(([s1, s2], lz, list(f)))
        for s, lz, f in (fam if thorough else rng.sample(fam, 700)):
            add(el.scenario(2, s, [set(), set()], lazy=lz, fail=f, self_opt=[rng.random() < .5, rng.random() < .5],
                            order=perm(rng, 2), reg_order=perm(rng, 2),
                            lookups=[rng.randint(1, 2) for _ in range(rng.randint(0, 3))] if prop == "C04" else [],
                            seed=rng.randint(0, 2 ** 31), sid=sid()))
        # every lifecycle mode a processor can impose x every callback that mode still reaches, failing ONE AT A TIME (a second
        # fault elsewhere would hide a swallowed error behind its own failure)
        reach = {"normal": el.FAILS[1:], "beforeNil": ["resolve", "before"], "shortcut": ["after"]}
        fam2 = []
        for s1 in nodes2:
            for s2 in nodes2:
                for md in itertools.product(["normal", "beforeNil", "shortcut"], repeat=2):
                    for who in (0, 1):
                        for f in reach[md[who]]:
                            fl = ["none", "none"]
                            fl[who] = f
                            fam2.append(([s1, s2], list(md), fl))
        for s, md, fl in (fam2 if thorough else rng.sample(fam2, 500)):
            add(el.scenario(2, s, [set(), set()], mode=md, fail=fl, self_opt=[rng.random() < .5, rng.random() < .5],
                            order=perm(rng, 2), reg_order=perm(rng, 2), lazy=[x for x in (1, 2) if rng.random() < 0.2],
                            lookups=[rng.randint(1, 2) for _ in range(rng.randint(0, 2))] if prop == "C04" else [],
                            seed=rng.randint(0, 2 ** 31), sid=sid()))
        for n, cnt in ([(3, 500), (4, 300), (6, 80)] if not thorough else [(3, 6000), (4, 6000), (5, 3000), (6, 1500), (8, 500)]):
            for _ in range(cnt):
                add(el.rand_scenario(rng, n, p_edge=rng.choice([0.25, 0.4, 0.6]), fails=rng.choice([0.15, 0.4]),
                                     wraps=rng.choice([0, 0, 0.3]), lazies=rng.choice([0, 0.3]), modes=rng.choice([0, 0.2]),
                                     lookups=3 if prop == "C04" else 0, sid=sid()))
        for n in ([12, 30] if not thorough else [12, 30, 60, 120]):
            for sh in ["chain", "ring", "diamond", "cycletail", "dense"]:
                sc = el.shaped(rng, n, sh)
                for i in rng.sample(range(n), rng.choice([1, 2])):     # faults one at a time and in pairs
                    sc["fail"][i] = rng.choice(el.FAILS[1:])
                if prop == "C04":
                    sc["lookups"] = [rng.randint(1, n) for _ in range(3)]
                sc["id"] = sid() + "-" + sh
                add(sc)
    if prop == "C05":
        g1 = list(fam_graphs(3, single_only=True))
        g2 = list(fam_graphs(3, slice_only=True))
        nodes = [1, 2, 3]
        for fam_g in (g1, g2):
            for s, l in (fam_g if thorough else rng.sample(fam_g, 150)):
                lz = [x for x in nodes if rng.random() < 0.4]
                so = rng.random() < 0.5
                add(el.scenario(3, s, l, lazy=lz, self_opt=[so] * 3, slice_opt=[so] * 3, order=perm(rng, 3), reg_order=perm(rng, 3),
                                seed=rng.randint(0, 2 ** 31), sid=sid(), procs=[rng.random() < 0.5 for _ in range(rng.randint(0, 2))]))
        for n, cnt in ([(3, 300), (4, 300), (6, 100), (8, 50)] if not thorough else [(3, 4000), (4, 5000), (5, 2500), (6, 1500), (8, 600)]):
            for _ in range(cnt):
                add(el.rand_scenario(rng, n, p_edge=rng.choice([0.2, 0.35, 0.6]), lazies=rng.choice([0.2, 0.5]), sid=sid(), procs=True,
                                     modes=rng.choice([0, 0.25]), fails=rng.choice([0, 0, 0.15])))
        for n in ([12, 25, 40] if not thorough else [12, 25, 40, 80, 150]):
            for sh in ["chain", "diamond", "cycletail", "fanin", "dense", "ring"]:
                lz = [i for i in range(1, n + 1) if rng.random() < 0.3]
                sc = el.shaped(rng, n, sh, lazy=lz)
                sc["id"] = sid() + "-" + sh
                add(sc)
    if prop in ("C01", "C02", "C03", "C04", "C05"):
        # components whose Init() looks another (often lazy) component up by name: cycles closed during initialisation,
        # early references first requested after population, components without injection points reached from inside
        for _ in range(400 if not thorough else 6000):
            n = rng.choice([2, 3, 3, 4])
            sc = el.rand_scenario(rng, n, p_edge=rng.choice([0.2, 0.45]), lazies=0.5, ilooks=0.6,
                                  wraps=(rng.choice([0.3, 0.6]) if prop in ("C01", "C03") else False),
                                  fails=(0.2 if prop == "C04" else False), lookups=(2 if prop in ("C01", "C04") else 0),
                                  opt=(prop == "C02"), sid=sid())
            sc["id"] += "-ilook"
            add(sc)
    return small, big


CACHE_INV = ["C04_PublishedClean", "C04_EarlyOnce", "C04_OneEarlyRef", "C04_CleanFailure", "C04_MarkedWhileOpen"]


def cache_phase(run, tier, workdir, binary):
    """C04, replay direction: TLC enumerates complete registry call sequences of Cache.tla (and simulates
    longer ones); each is replayed into the real registry; what the registry actually did is validated."""
    import re
    cd = os.path.join(workdir, "cache")
    os.makedirs(cd)
    vlib.stage_specs(cd, ["Cache.tla", "TraceCache.tla"])
    names, maxops = (2, 5) if tier == "quick" else (2, 6)
    consts = dict(Names="{%s}" % ", ".join(str(i) for i in range(1, names + 1)), MaxOps=maxops, CleanupOnError="TRUE")
    vlib.write_cfg(os.path.join(cd, "exp.cfg"), constants=consts, spec="Spec", invariants=CACHE_INV + ["Export"],
                   properties=["C04_PublishedStable"])
    r = vlib.run_tlc(cd, "Cache", "exp.cfg", workers=4, timeout=1800, jvm=vlib.JVM_BIG)
    run.add_model_run("Cache names=%d all call sequences of length %d" % (names, maxops), r)
    if not r.ok:
        raise vlib.Infra("Cache.tla: %s %s" % (r.kind, r.violated))
    hists = [json.loads(json.loads('"' + m + '"')) for m in re.findall(r'<<"HIST", "(.*)">>', r.out)]
    # longer random call sequences by simulation
    sim_ops = 12 if tier == "quick" else 16
    consts2 = dict(consts, MaxOps=sim_ops)
    vlib.write_cfg(os.path.join(cd, "sim.cfg"), constants=consts2, spec="Spec", invariants=CACHE_INV + ["Export"])
    num = 3000 if tier == "quick" else 30000
    r2 = vlib.run_tlc(cd, "Cache", "sim.cfg", workers=1, timeout=900,
                      simulate="num=%d" % num, extra=["-depth", str(sim_ops + 1), "-seed", str(run.seed)])
    hists2 = [json.loads(json.loads('"' + m + '"')) for m in re.findall(r'<<"HIST", "(.*)">>', r2.out)]
    run.cov["model_runs"].append(dict(name="Cache simulate depth %d" % sim_ops, histories=len(hists2), ok=True))
    allh = [h for h in hists + hists2 if any(o["op"] == "createBegin" for o in h)]
    vlib.write_ndjson(os.path.join(cd, "h.ndjson"), allh)
    p = vlib.run_harness(binary, ["cache", "-in", "h.ndjson", "-out", "ct.ndjson", "-names", str(names)], cwd=cd)
    if p.returncode != 0:
        raise vlib.Infra("cache replay failed: " + p.stderr[-1000:])
    groups = el.split_trace(os.path.join(cd, "ct.ndjson"), marker='"op":"hist"')
    tc = dict(consts, MaxOps=1000)
    stm, fm = el.validate_groups(cd, groups, "TraceCache", tc, CACHE_INV, ["M_NoHalfBuilt", "M_PublishedStable", "M_FailedLookupChangesNothing"], "cmon",
                                 spec="MonitorSpec")
    stc, fc = el.validate_groups(cd, groups, "TraceCache", tc, CACHE_INV, [], "cconf")
    run.cov["states"] += stm["states"] + stc["states"]
    run.cov["transitions"] += stm["generated"] + stc["generated"]
    run.cov["traces_validated_against_impl"] += len(groups)
    run.cov["cache_histories_replayed"] = len(groups)
    drift = 0
    for layer, fails in (("monitor", fm), ("conformance", fc)):
        for f in fails:
            g = groups[f["group"]]
            ops = [json.loads(x) for x in g[1:]]
            if f["kind"] == "postcondition":
                if layer == "monitor":
                    raise vlib.Infra("cache monitor could not consume a history: " + f["tlc"][:400])
                drift += 1
                continue
            what = "cache %s: %s %s violated at call %d of a replayed history" % (layer, f["kind"], f["name"], f["line"] - 1)
            run.violation(what, dict(kind="cache", history=[{k: v for k, v in o.items() if k != "st"} for o in ops],
                                     operator=f["name"], call_index=f["line"] - 1, tlc=f["tlc"][:2000]))
    if allh:
        run.sample(dict(cache_history=allh[len(allh) // 2]))
    for h in allh:
        run.count_case(h, True)
    return drift


def runner_phase(run, tier, workdir, binary, rng, tag="runners"):
    """Application runners inside the creation engine (C13, C09): the App's runner slice pulls the runner components in
    first (candidate order, lazy ones included); Run is called once per runner after everything needed is published, never
    after a failure.  Exhaustive family R + recorded real starts (conformance and monitor)."""
    rd = os.path.join(workdir, tag)
    os.makedirs(rd)
    inv = ["C13_Once", "C13_AfterReady", "C13_StopAtError", "C09_FaultFails", "C04_CleanFailure"]
    props = ["C09_NoRunnerAfterFailure"]
    vlib.stage_specs(rd, ["Container.tla", "MCEngR.tla", "TraceContainer.tla", "MonitorContainer.tla"])
    n_mc = 2          # (N=3 has 655 k scenarios: far beyond a thorough budget; depth comes from the recorded real starts)
    vlib.write_cfg(os.path.join(rd, "r.cfg"), constants=dict(N=n_mc, MaxLookups=0, Scenarios="<- Fam", **FIX), spec="Spec", invariants=inv, properties=props)
    r = vlib.run_tlc(rd, "MCEngR", "r.cfg", workers=8, timeout=3000, jvm=vlib.JVM_BIG)
    run.add_model_run("MCEngR N=%d: runner sequences x graphs x lazies x one fault" % n_mc, r)
    if not r.ok:
        raise vlib.Infra("family R: %s %s violated on the model: the specification needs fixing" % (r.kind, r.violated))
    scs = []
    for n, cnt in ([(3, 250), (4, 200), (6, 80)] if tier == "quick" else [(3, 3000), (4, 3000), (5, 1500), (6, 1000), (8, 400)]):
        for i in range(cnt):
            scs.append(el.rand_scenario(rng, n, p_edge=rng.choice([0.25, 0.4]), lazies=rng.choice([0, 0.4]), fails=rng.choice([0, 0.2]),
                                        runners=rng.choice([0.3, 0.6]), sid="%s-%d-%d" % (tag, n, i)))
    by_n = {}
    for sc in scs:
        by_n.setdefault(sc["n"], []).append(sc)
    drift = 0
    for n, group in sorted(by_n.items()):
        tr = el.run_engine(binary, rd, group, name="r%d" % n)
        groups = el.split_trace(tr)
        os.remove(tr)
        st, fails = el.validate_groups(rd, groups, "MonitorContainer", dict(N=n), ["M_C13_Runners", "M_C09_NoPanic", "M_C09_FaultFails", "M_C04_CleanFailure"], [], "rm%d" % n)
        st2, fails2 = el.validate_groups(rd, groups, "TraceContainer", dict(N=n, MaxLookups=12, Scenarios="<- TraceScenarios", **FIX), inv, props, "rc%d" % n)
        run.cov["states"] += st["states"] + st2["states"]
        run.cov["transitions"] += st["generated"] + st2["generated"]
        run.cov["traces_validated_against_impl"] += len(groups)
        for layer, fl in (("monitor", fails), ("conformance", fails2)):
            for f in fl:
                sc = el.scenario_of(groups[f["group"]])
                if f["kind"] == "postcondition":
                    if layer == "monitor":
                        raise vlib.Infra("monitor could not consume a trace: " + f["tlc"][:400])
                    drift += 1
                    if drift <= 2:
                        g_ = groups[f["group"]]
                        vlib.log("DRIFT module=Container (runners) scenario=%s line=%d next_event=%s" % (
                            sc["id"], f["line"], g_[f["line"] - 1][:300] if f["line"] - 1 < len(g_) else "-"))
                        vlib.log("   scenario: %s" % json.dumps({k: sc[k] for k in ("single", "slice", "lazy", "fail", "rorder", "ilook", "plainRig", "extra", "mode", "wrap")}))
                    continue
                report(run, run.prop, layer, f, sc, groups[f["group"]])
        for g in groups:
            sc = el.scenario_of(g)
            run.count_case({k: sc[k] for k in ("n", "single", "slice", "lazy", "fail", "runners", "rorder", "order")}, bool(sc["runners"]))
        if groups:
            g = next((x for x in groups if el.scenario_of(x)["runners"]), groups[0])
            run.sample(dict(scenario={k: el.scenario_of(g)[k] for k in ("id", "n", "single", "lazy", "fail", "runners", "rorder")},
                            events=[{k: v for k, v in json.loads(x).items() if k != "st"} for x in g[1:]][-8:]))
    return drift


def proof_phase(run, tier, workdir):
    """C04, unbounded part: the cache invariants are an inductive invariant of an abstraction of Cache.tla for ANY set of
    names and values (TLA+ proof system), and TLC checks that Cache.tla refines that abstraction."""
    import re, subprocess, shutil, glob
    pd = os.path.join(workdir, "proof")
    os.makedirs(pd)
    vlib.stage_specs(pd, ["CacheProof.tla", "Cache.tla", "MCCacheRefines.tla"])
    if not shutil.which("tlapm"):
        raise vlib.Infra("tlapm not found")
    try:
        p = subprocess.run(["tlapm", "--threads", "8", "--cleanfp", "CacheProof.tla"], cwd=pd, stdout=subprocess.PIPE, stderr=subprocess.STDOUT,
                           text=True, timeout=900)
    except subprocess.TimeoutExpired:
        raise vlib.Infra("tlapm timed out")
    m = re.search(r"All (\d+) obligations? proved", p.stdout)
    if not m:
        raise vlib.Infra("tlapm did not prove CacheProof.tla:\n" + p.stdout[-1500:])
    n = int(m.group(1))
    run.cov["obligations"] = n
    run.cov["discharged"] = n
    run.cov["checker_cmd"] = "tlapm --threads 8 --cleanfp CacheProof.tla"
    run.cov["trusted_base"] = ["tlapm 1.6.0-pre back ends (SMT, Zenon, Isabelle, PTL)", "TLC for the refinement Cache.tla => CacheProof!Spec"]
    stdlib = glob.glob("/opt/veriftools/tlapm/lib/tlapm/stdlib/TLAPS.tla")
    if stdlib:
        shutil.copy(stdlib[0], pd)
    vlib.write_cfg(os.path.join(pd, "r.cfg"), constants=dict(Names="{1, 2}", MaxOps=5 if tier == "quick" else 6, CleanupOnError="TRUE"),
                   spec="Spec", invariants=["AbsInv"], properties=["AbsSpec"], view="NoHist")
    r = vlib.run_tlc(pd, "MCCacheRefines", "r.cfg", workers=4, timeout=1200, jvm=vlib.JVM_BIG)
    run.add_model_run("refinement: Cache.tla => CacheProof!Spec (the abstraction with the proved inductive invariant, %d obligations)" % n, r)
    if not r.ok:
        raise vlib.Infra("Cache.tla does not refine CacheProof: %s" % r.violated)


def run_check(prop, tier, replay=None, label=None):
    run = vlib.Run(label or prop, tier, "model_checking")
    run.write_evidence = replay is None
    rng = random.Random(run.seed * 7919 + int(prop[1:]))
    workdir = vlib.scratch_dir(prop)
    try:
        # (A) in a thread, (B) meanwhile
        notes = []
        th = None
        if replay is None:
            os.makedirs(os.path.join(workdir, "mc"))
            mc_err = []
            def guarded():
                try:
                    notes.extend(model_check(run, prop, tier, os.path.join(workdir, "mc")))
                except Exception as e:      # surfaced after join
                    mc_err.append(e)
            th = threading.Thread(target=guarded)
            th.start()
        binary = vlib.build_harness(workdir)
        if replay is not None:
            rp = json.load(open(replay))["replay"]
            if rp.get("kind") == "suite":      # a history of one of the repository's own tests: run them again
                import check_suite
                check_suite.suite_phase(run, tier, workdir)
                return run.finish()
            if rp.get("kind") == "cache":
                raise vlib.Infra("replay of a cache history: re-run the full C04 check (histories are regenerated by TLC)")
            sc = rp["scenario"]
            small, big = ([], [sc]) if sc.get("sparse") else ([sc], [])
        else:
            small, big = scenarios_for(prop, tier, rng)
        cache_th, cache_res = None, []
        if prop == "C04" and replay is None:
            def cache_job():
                try:
                    proof_phase(run, tier, workdir)
                    d = cache_phase(run, tier, workdir, binary)
                    import check_suite
                    d += check_suite.suite_phase(run, tier, workdir)     # the repository's own tests, traced
                    cache_res.append(d)
                except Exception as e:
                    cache_res.append(e)
            cache_th = threading.Thread(target=cache_job)
            cache_th.start()
        bd = os.path.join(workdir, "b")
        os.makedirs(bd)
        vlib.stage_specs(bd, ["Container.tla", "TraceContainer.tla", "MonitorContainer.tla"])
        by_n = {}
        for sc in small + big:
            by_n.setdefault((sc["n"], bool(sc["sparse"])), []).append(sc)
        jobs = []
        results = []
        lock = threading.Lock()

        def do_group(n, sparse, scs):
            name = "n%d%s" % (n, "s" if sparse else "d")
            tr = el.run_engine(binary, bd, scs, name=name)
            groups = el.split_trace(tr)
            os.remove(tr)
            if len(groups) != len(scs):
                raise vlib.Infra("harness produced %d groups for %d scenarios" % (len(groups), len(scs)))
            out = dict(n=n, sparse=sparse, groups=groups, mon=None, conf=None)
            # monitor layer
            st, fails = el.validate_groups(bd, groups, "MonitorContainer", dict(N=n), MON_INV[prop], MON_PROPS[prop],
                                           "mon_" + name)
            out["mon"] = (st, fails)
            if not sparse:
                consts = dict(N=n, MaxLookups=12, Scenarios="<- TraceScenarios", **FIX)
                st2, fails2 = el.validate_groups(bd, groups, "TraceContainer", consts, MC_INV[prop], TR_PROPS[prop],
                                                 "conf_" + name)
                out["conf"] = (st2, fails2)
            with lock:
                results.append(out)

        errs = []
        def guarded_group(*a):
            try:
                do_group(*a)
            except Exception as e:
                errs.append(e)
        ths = [threading.Thread(target=guarded_group, args=(n, sp, scs)) for (n, sp), scs in sorted(by_n.items())]
        # at most 6 trace JVMs at a time next to the model checker
        sem = threading.Semaphore(6)
        def gated(t):
            with sem:
                t.run()
        wrappers = [threading.Thread(target=gated, args=(t,)) for t in ths]
        for w in wrappers:
            w.start()
        for w in wrappers:
            w.join()
        if th:
            th.join()
            if mc_err:
                raise mc_err[0]
        if errs:
            raise errs[0]

        drift = 0
        if cache_th:
            cache_th.join()
            if cache_res and isinstance(cache_res[0], Exception):
                raise cache_res[0]
            drift += cache_res[0]
        for out in results:
            groups = out["groups"]
            st, fails = out["mon"]
            run.cov["states"] += st["states"]
            run.cov["transitions"] += st["generated"]
            run.cov["traces_validated_against_impl"] += st["groups"]
            for f in fails:
                sc = el.scenario_of(groups[f["group"]])
                if f["kind"] == "postcondition":
                    raise vlib.Infra("monitor could not consume a trace (line %d of scenario %s): %s" % (f["line"], sc["id"], f["tlc"][:500]))
                report(run, prop, "monitor", f, sc, groups[f["group"]])
            if out["conf"]:
                st2, fails2 = out["conf"]
                run.cov["states"] += st2["states"]
                run.cov["transitions"] += st2["generated"]
                for f in fails2:
                    sc = el.scenario_of(groups[f["group"]])
                    if f["kind"] == "postcondition":
                        drift += 1
                        if drift <= 3:
                            ev = json.loads(groups[f["group"]][min(f["line"], len(groups[f["group"]])) - 1])
                            ev.pop("st", None)
                            vlib.log("DRIFT module=Container scenario=%s line=%d next_event=%s" % (sc["id"], f["line"], json.dumps(ev)))
                    else:
                        report(run, prop, "conformance", f, sc, groups[f["group"]])
            for g in groups[:2]:
                sc = el.scenario_of(g)
                evs = []
                for ln in g[1:9]:
                    e = json.loads(ln)
                    e.pop("st", None)
                    evs.append(e)
                run.sample(dict(scenario={k: sc[k] for k in ("id", "n", "single", "slice", "lazy", "wrap", "fail", "order", "regOrder", "kinds", "lookups")},
                                first_events=evs, events=len(g) - 1))
            for g in groups:
                sc = el.scenario_of(g)
                key = {k: sc[k] for k in ("n", "single", "slice", "lazy", "wrap", "fail", "selfOpt", "sliceOpt", "order", "regOrder", "kinds", "lookups")}
                nontrivial = any(sc["single"]) or any(sc["slice"])
                run.count_case(key, nontrivial)
        if prop in ("C03", "C04") and replay is None:
            drift += retry_phase(run, prop, tier, workdir, binary, rng)
        if prop == "C09" and replay is None:
            scan_fault_phase(run, tier, workdir, binary)
        if prop == "C09" and replay is None:
            # C09 also quantifies over unsatisfiable injection points and over loader / Init / runner faults:
            # the same property operators, on the resolution pipeline (Resolve.tla) and on App.Run (App.tla)
            import check_resolve, check_app, resolve_lib as rl, app_lib as al
            n = 400 if tier == "quick" else 6000
            rscs = []
            for i in range(n):
                for s in rl.with_orders(rng, rl.rand_scenario(rng, "C09", "C09-res%d" % i, max_prov=rng.choice([2, 4, 6])), 2):
                    s["split"] = rng.random() < 0.5
                    s["seed"] = rng.randint(0, 2 ** 31)
                    rscs.append(s)
            drift += check_resolve.real_phase(run, "C09", tier, workdir, binary, rscs,
                                              ["C09_NoPanic", "C09_RequiredFails", "C09_OptionalHarmless"], [], tag="res")
            drift += runner_phase(run, tier, workdir, binary, rng)
            import check_data
            check_data.missing_phase(run, workdir, binary)
            ascs = [al.scenario(rng, "C09-app%d" % i, "C09") for i in range(n)]
            drift += check_app.real_phase(run, "C09", tier, workdir, binary, ascs,
                                          ["C09_NoRunnerAfterFailure", "C13_ErrorReported", "C13_StopAtError"],
                                          ["M_WellFormed", "C09_NoRunnerAfterFailure", "C13_ErrorReported", "C13_StopAtError", "M_C09_NoPanic"], [], tag="app")
        run.cov["rule"] = ("scenarios = resolved dependency graph x lazy set x substitution mode x fault x candidate/registration order x "
                           "edge realisation (by name / by type / qualified slice) x post-run lookups; a scenario is non-trivial when "
                           "its graph has at least one edge; distinct = distinct scenario records")
        if drift:
            run.cov["model_binding"] = "drift"
            run.cov["drifted_scenarios"] = drift
            vlib.log("DRIFT: %d scenario(s) are not behaviours of Container.tla although no property failed on them; "
                     "the exhaustive result does not transfer to this tree" % drift)
        # model-only counterexamples: never a violation by themselves
        for (mod, n, r) in notes:
            vlib.log("MODEL-COUNTEREXAMPLE %s N=%d %s %s (not reproduced on real code)" % (mod, n, r.kind, r.violated))
        if notes and not run.violations:
            run.cov["exhaustive"] = False
            raise vlib.Infra("the model admits a %s counterexample (%s) that the real code did not reproduce: "
                             "the specification needs fixing" % (notes[0][2].kind, notes[0][2].violated))
        run.cov["exhaustive"] = True
        run.cov["explanation"] = ("exhaustive = the listed TLC families were explored completely; real-code traces are seeded samples "
                                  "plus complete small families, each validated by conformance and monitor specs")
        run.assumptions += [
            "TLC explores the constructive families completely (fingerprint collisions aside)",
            "object identity is observed through Go pointer equality of the values in fields and registries",
            "hook H2 (support.VerifLevels) reads the registry tables without side effects",
            "edges are resolved by Resolve.tla's rules; the engine quantifies over resolved graphs",
        ]
        return run.finish()
    finally:
        vlib.rm(workdir)


def scan_fault_phase(run, tier, workdir, binary):
    """C09: a definition scanner (DefinitionRegistryPostProcessor) that reports an error for one or SEVERAL components of the same
    start: Run returns an error - it neither succeeds nor hangs (the scanning phase joins its goroutines).  The starts are the
    gated scan scenarios of the C20 check (failing scanners fail at the same moment); TraceScan.tla judges the outcome."""
    sd = os.path.join(workdir, "scanfault")
    os.makedirs(sd)
    vlib.stage_specs(sd, ["TraceScan.tla"])
    recs = []
    for n, k in [(3, 1), (4, 2), (5, 3), (6, 6), (3, 0)] * (1 if tier == "quick" else 6):
        json.dump(dict(kind="scan", n=n, failing=k, iter=0), open(os.path.join(sd, "sc.json"), "w"))
        p = vlib.run_harness(binary, ["race", "-in", "sc.json"], cwd=sd, timeout=120)
        if p.returncode != 0:
            raise vlib.Infra("scan harness failed: " + p.stderr[-800:])
        rec = json.loads(p.stdout.strip().splitlines()[-1])
        recs.append(dict({kk: v for kk, v in rec.items() if kk not in ("report", "inflight")}, race=False, report="", incoherent=0, hung=bool(rec.get("hung", False))))
    vlib.write_ndjson(os.path.join(sd, "sf.ndjson"), recs)
    r = el.tlc_trace(sd, "TraceScan", os.path.join(sd, "sf.ndjson"), {}, ["C20_Outcome"], [], "sf", spec="MonitorSpec")
    run.cov["states"] += r.distinct
    run.cov["traces_validated_against_impl"] += len(recs)
    if not r.ok:
        if r.kind != "invariant":
            raise vlib.Infra("TraceScan (scanner faults): " + r.error_text[:500])
        k = el._last_state_no(r.out)
        bad = recs[k - 2] if k and k >= 2 else recs[-1]
        run.violation("a start with %s failing definition scanner(s) of %s: Run %s" % (bad["failing"], bad["n"], "did not return" if bad.get("hung") else "returned ok=%s" % bad.get("ok")),
                      dict(family="scanfault", record=bad))
    for rec in recs:
        run.count_case({kk: rec[kk] for kk in ("kind", "n", "failing")}, True)


def retry_phase(run, prop, tier, workdir, binary, rng):
    """C03 / C04 across a failed attempt and its retry: lazy components on cycles, ONE transient fault (fires only while nothing
    has failed yet), substitution modes, repeated post-run lookups.  Verdict: M_C03_RetryNoStale (whoever was (re-)created during or
    after the target's successful attempt holds its published version).  The survivors of the failed attempt are the recorded
    finding F16 (M_F16_SurvivorSeesFinal)."""
    bd = os.path.join(workdir, "retry")
    os.makedirs(bd)
    vlib.stage_specs(bd, ["Container.tla", "TraceContainer.tla", "MonitorContainer.tla"])
    scs = []
    k = 0
    for n, cnt in ([(2, 260), (3, 260)] if tier == "quick" else [(2, 2500), (3, 5000), (4, 2500)]):
        for _ in range(cnt):
            k += 1
            sc = el.rand_scenario(rng, n, p_edge=rng.choice([0.5, 0.8]), p_slice=0.2, wraps=rng.choice([0.4, 0.7]), sid="%s-retry%d" % (prop, k), ilooks=0)
            sc["lazy"] = list(range(1, n + 1))                      # nothing is created by the start itself: Run succeeds
            sc["fail"] = ["none"] * n
            sc["mode"] = ["normal"] * n
            sc["runners"], sc["rorder"], sc["procs"], sc["prewire"] = [], [], [], [[] for _ in range(n)]
            who = rng.randrange(n)
            sc["fail"][who] = rng.choice(["resolve", "before", "aps", "init", "init", "after"])
            sc["once"] = [i == who for i in range(n)]
            first = rng.randint(1, n)
            sc["lookups"] = [first, first] + [rng.randint(1, n) for _ in range(rng.randint(0, 2))]
            sc["plainRig"] = False
            scs.append(sc)
    by_n = {}
    for sc in scs:
        by_n.setdefault(sc["n"], []).append(sc)
    drift = 0
    for n, group_scs in sorted(by_n.items()):
        tr = el.run_engine(binary, bd, group_scs, name="retry%d" % n)
        groups = el.split_trace(tr)
        os.remove(tr)
        if len(groups) != len(group_scs):
            raise vlib.Infra("harness produced %d groups for %d scenarios" % (len(groups), len(group_scs)))
        st, fails = el.validate_groups(bd, groups, "MonitorContainer", dict(N=n), MON_INV[prop] + ["M_C03_RetryNoStale"], MON_PROPS[prop], "rmon%d" % n)
        stk, known = dict(states=0, generated=0), []
        if prop == "C03":      # the recorded finding F16 is a C03 finding: its operator is evaluated by the C03 check only
            stk, known = el.validate_groups(bd, groups, "MonitorContainer", dict(N=n), ["M_F16_SurvivorSeesFinal"], [], "rknown%d" % n, max_failures=5)
        consts = dict(N=n, MaxLookups=12, Scenarios="<- TraceScenarios", **FIX)
        st2, fails2 = el.validate_groups(bd, groups, "TraceContainer", consts, MC_INV[prop], TR_PROPS[prop], "rconf%d" % n)
        run.cov["states"] += st["states"] + st2["states"] + stk["states"]
        run.cov["transitions"] += st["generated"] + st2["generated"] + stk["generated"]
        run.cov["traces_validated_against_impl"] += len(groups)
        for f in fails:
            sc = el.scenario_of(groups[f["group"]])
            if f["kind"] == "postcondition":
                raise vlib.Infra("monitor could not consume a retry trace (scenario %s): %s" % (sc["id"], f["tlc"][:500]))
            report(run, prop, "monitor", f, sc, groups[f["group"]])
        for f in known:
            sc = el.scenario_of(groups[f["group"]])
            if f["kind"] == "postcondition":
                raise vlib.Infra("monitor could not consume a retry trace (scenario %s): %s" % (sc["id"], f["tlc"][:500]))
            for kf in vlib.known_for("C03"):
                if kf.get("signature", {}).get("operator") == f["name"]:
                    run.known(kf, "scenario %s" % sc["id"])
                    break
            else:
                report(run, prop, "monitor", f, sc, groups[f["group"]])
        for f in fails2:
            sc = el.scenario_of(groups[f["group"]])
            if f["kind"] == "postcondition":
                drift += 1
                if drift <= 3:
                    ev = json.loads(groups[f["group"]][min(f["line"], len(groups[f["group"]])) - 1])
                    ev.pop("st", None)
                    vlib.log("DRIFT module=Container (retry) scenario=%s line=%d next_event=%s" % (sc["id"], f["line"], json.dumps(ev)))
            else:
                report(run, prop, "conformance", f, sc, groups[f["group"]])
        for g in groups:
            sc = el.scenario_of(g)
            run.count_case({kk: sc[kk] for kk in ("n", "single", "slice", "wrap", "fail", "once", "lookups", "order")}, True)
    return drift


def report(run, prop, layer, f, sc, group):
    evs = []
    for ln in group[1:]:
        e = json.loads(ln)
        evs.append(e)
    what = "%s: %s %s violated at event %d of scenario %s" % (layer, f["kind"], f["name"], f["line"] - 1, sc["id"])
    for k in vlib.known_for(prop):
        if known_match(k, sc, f):
            run.known(k, what)
            return
    run.violation(what, dict(family="engine", scenario=sc, layer=layer, operator=f["name"], event_index=f["line"] - 1,
                             trace=[{kk: vv for kk, vv in e.items() if kk != "st"} for e in evs][:400],
                             tlc=f["tlc"][:3000]))


def known_match(k, sc, f):
    sig = k.get("signature", {})
    if "operator" in sig and sig["operator"] not in (f["name"], "M_" + str(f["name"])):
        return False
    return False
