"""Scenario generation for the candidate-resolution family (C06 C07 C08 C10, resolve part of C09)."""
import itertools, random

# pool type attributes: must equal TA in spec/Resolve.tla and the Go pool in harness/resolve.go
TA = {1: dict(i1=0, hasQ=0, prim=0, hasM=0), 2: dict(i1=1, hasQ=0, prim=0, hasM=0, pb=1), 3: dict(i1=1, hasQ=1, prim=0, hasM=0),
      4: dict(i1=1, hasQ=0, prim=1, hasM=0), 5: dict(i1=1, hasQ=1, prim=1, hasM=0), 6: dict(i1=0, hasQ=1, prim=0, hasM=0),
      7: dict(i1=1, hasQ=0, prim=0, hasM=1), 8: dict(i1=1, hasQ=1, prim=0, hasM=1), 9: dict(i1=0, hasQ=0, prim=0, hasM=0),
      10: dict(i1=1, hasQ=0, prim=0, hasM=0), 11: dict(i1=1, hasQ=1, prim=0, hasM=1), 12: dict(i1=0, hasQ=0, prim=0, hasM=1),
      13: dict(i1=1, hasQ=0, prim=0, hasM=0), 14: dict(i1=1, hasQ=0, prim=1, hasM=1),
      15: dict(i1=1, hasQ=0, prim=0, hasM=0, zero=1), 16: dict(i1=1, hasQ=0, prim=0, hasM=1, zero=1),
      17: dict(i1=1, hasQ=0, prim=1, hasM=0, zero=1), 18: dict(i1=1, hasQ=1, prim=0, hasM=0, zero=1)}
PROV_TYPES = [1, 2, 3, 4, 5, 6, 7, 8, 12, 13, 14, 15, 16, 17, 18]
ZERO_TYPES = [15, 16, 17, 18]
HOLDER_TYPES = [9, 10, 11]
KINDS = ["iface", "siface", "ptr", "sptr", "any", "aiface", "aptr"]
QUALS = [(False, []), (True, ["g1"]), (True, ["g1", "g2"]), (True, ["g9"])]


def attr(rng, ty, named=None):
    if TA[ty].get("zero"):
        named = False          # a field-less struct has nowhere to keep a custom name
    q = rng.choice(["g1", "g2"]) if TA[ty]["hasQ"] else "-"
    if ty == 18:
        q = "g1"               # ... nor a qualifier other than the constant its method returns
    return dict(ty=ty, named=rng.random() < 0.5 if named is None else named, q=q)


def name_ok(provs):
    seen = set()
    for p in provs:
        if not p["named"]:
            if p["ty"] in seen:
                return False
            seen.add(p["ty"])
    return True


_FN = random.Random(12345)      # deterministic choice of the requested method for func points


def point(kind, tag="wire", by_name=0, has_q=False, q=(), req=True, fn=None):
    ret = []
    if fn is None:
        fn = _FN.choice(["Mark", "Tick", "Kind"]) if tag == "func" else "Mark"
        if fn == "Kind":
            ret = _FN.choice([[], ["A"], ["B"], ["A", "B"], ["*"], ["A"], ["C"]])
    return dict(kind=kind, tag=tag, byName=by_name, hasQ=has_q, q=list(q), req=req, fn=fn, ret=ret)


def rand_point(rng, nprov, focus):
    if focus == "C07":
        kind = rng.choice(["iface", "ptr", "any", "iface", "ptr", "siface"])
        bn = rng.choice([-1] + list(range(1, nprov + 1)))
        hq, q = rng.choice([(False, []), (False, []), (True, ["g1"])])
        return point(kind, "wire", bn, hq, q, rng.random() < 0.6)
    if focus in ("C09", "C06") and rng.random() < 0.12:       # array-typed points: never served, must fail cleanly / stay as they are
        return point(rng.choice(["aiface", "aptr"]), rng.choice(["wire", "wire", "func"]), 0, False, [], rng.random() < 0.5)
    if focus == "C09":       # unsatisfiable points of every kind, required and optional
        r0 = rng.random()
        if r0 < 0.3:
            return point(rng.choice(["iface", "siface"]), "func", 0, rng.random() < 0.3, ["g9"], rng.random() < 0.6)
        if r0 < 0.55:
            return point(rng.choice(["iface", "ptr", "any"]), "wire", -1, False, [], rng.random() < 0.6)
        if r0 < 0.8:
            return point(rng.choice(["iface", "siface", "ptr", "sptr"]), "wire", 0, True, ["g9"], rng.random() < 0.6)
        return point(rng.choice(["iface", "siface", "ptr", "sptr"]), "wire", 0, False, [], rng.random() < 0.6)
    if focus == "C08":
        hq, q = rng.choice(QUALS[1:] + QUALS + [QUALS[0]] * 3)      # qualified points next to unqualified ones of the same type
        if rng.random() < 0.15:
            return point("iface", "wire", -1, False, [], False)
        tag = "func" if rng.random() < 0.15 else "wire"
        kind = rng.choice(["iface", "siface"]) if tag == "func" else rng.choice(["iface", "siface", "iface", "ptr", "sptr"])
        return point(kind, tag, 0, hq, q, rng.random() < 0.5)
    # C06 / default: by type and by method, sometimes qualified / named
    r = rng.random()
    if r < 0.2:
        return point(rng.choice(["iface", "siface"]), "func", 0, False, [], rng.random() < 0.6)
    if r < 0.3:
        hq, q = rng.choice(QUALS)
        return point(rng.choice(["iface", "siface"]), "wire", 0, hq, q, rng.random() < 0.6)
    if r < 0.4:
        return point(rng.choice(["iface", "ptr", "any"]), "wire", rng.choice([-1] + list(range(1, nprov + 1))), False, [], rng.random() < 0.6)
    return point(rng.choice(["iface", "siface", "ptr", "sptr"]), "wire", 0, False, [], rng.random() < 0.7)


def rand_scenario(rng, focus, sid, max_prov=5, max_pts=3):
    while True:
        n = rng.randint(1, max_prov)
        provs = [attr(rng, rng.choice(HOLDER_TYPES))] + [attr(rng, rng.choice(PROV_TYPES)) for _ in range(n)]
        if rng.random() < 0.2:
            # two or three field-less components (plain, with Mark(), Primary, qualified): same address, different components
            provs += [attr(rng, t) for t in rng.sample(ZERO_TYPES, rng.choice([2, 2, 3]))]
        if name_ok(provs):
            break
    npts = rng.randint(1, max_pts)
    pts = [rand_point(rng, len(provs), focus) for _ in range(npts)]
    order = list(range(1, len(provs) + 1)); rng.shuffle(order)
    reg = list(range(1, len(provs) + 1)); rng.shuffle(reg)
    # preset: every point's field holds a sentinel before the start (what receives nothing must stay untouched)
    # extra: the container's second public by-type collector (NewDependencyTypeAwarePostProcessors) is registered as well
    # viaMeta: one provider is not handed to the App; a user-written scanner registers its definition through the public
    # DefinitionRegistry.RegisterMeta (it is a candidate like any other)
    via = rng.randint(2, len(provs)) if len(provs) >= 2 and rng.random() < 0.2 else 0
    # viaName: ... under an explicit name of the scanner's choosing instead of the one the component declares through Naming()
    if via and provs[via - 1]["named"] and focus == "C07" and rng.random() < 0.7:
        pts[0] = point(rng.choice(["iface", "any", "ptr"]), "wire", via, False, [], rng.random() < 0.6)     # ... and a point asks for it by that name
    return dict(id=sid, prov=provs, pts=pts, order=order, reg=reg, preset=rng.random() < 0.4, extra=rng.random() < 0.25, viaMeta=via,
                viaName=bool(via and provs[via - 1]["named"] and rng.random() < 0.6), seed=rng.randint(0, 2 ** 31))


def with_orders(rng, sc, k):
    """k seeded permutations of the same scenario (C10: order independence)"""
    out = []
    n = len(sc["prov"])
    perms = list(itertools.permutations(range(1, n + 1))) if n <= 4 else None
    chosen = rng.sample(perms, min(k, len(perms))) if perms else [rng.sample(range(1, n + 1), n) for _ in range(k)]
    for i, o in enumerate(chosen):
        s = dict(sc)
        s["order"] = list(o)
        reg = list(range(1, n + 1)); rng.shuffle(reg)
        s["reg"] = reg
        s["id"] = "%s.o%d" % (sc["id"], i)
        out.append(s)
    return out
