"""Scenario generation for configuration sources (C15)."""
import itertools, random
KEYSETS = [["a"], ["a", "b"], ["b", "c.x"], ["c.x", "c.y"], [], ["a", "b", "c.x", "c.y"], ["c.y"]]
OPT_KINDS = [("add", "raw"), ("add", "args"), ("set", "raw"), ("set", "args"), ("file", "file")]


def all_sequences(max_opts, keysets, vals=(1, 2)):
    for n in range(0, max_opts + 1):
        for kinds in itertools.product(OPT_KINDS, repeat=n):
            for ks in itertools.product(keysets, repeat=n):
                for vs in itertools.product(vals, repeat=n):
                    yield [dict(kind=k[0], lk=k[1], keys=list(s), val=v) for k, s, v in zip(kinds, ks, vs)]


def rand_sequence(rng, max_opts):
    n = rng.randint(1, max_opts)
    out = []
    for _ in range(n):
        k = rng.choice(OPT_KINDS + [("add", "raw"), ("file", "file")])
        out.append(dict(kind=k[0], lk=k[1], keys=list(rng.choice(KEYSETS)), val=rng.randint(1, 3)))
    if len(out) >= 3 and rng.random() < 0.5:          # the very same document twice, with other sources in between
        i = rng.randrange(0, len(out) - 2)
        j = rng.randrange(i + 2, len(out))
        out[j] = dict(out[j], keys=list(out[i]["keys"]), val=out[i]["val"], lk=out[j]["lk"])
    return out
