"""Scenario generation for configuration sources (C15)."""
import itertools, random
KEYSETS = [["a"], ["a", "b"], ["b", "c.x"], ["c.x", "c.y"], [], ["a", "b", "c.x", "c.y"], ["c.y"]]
OPT_KINDS = [("add", "raw"), ("add", "args"), ("set", "raw"), ("set", "args"), ("file", "file")]
USER_LKS = ["ordm", "ordz", "ordp", "priom", "priop", "markl"]     # user-written loaders implementing Ordered / Priority (markl: the Priority marker alone)


def all_sequences(max_opts, keysets, vals=(1, 2)):
    for n in range(0, max_opts + 1):
        for kinds in itertools.product(OPT_KINDS, repeat=n):
            for ks in itertools.product(keysets, repeat=n):
                for vs in itertools.product(vals, repeat=n):
                    yield [dict(kind=k[0], lk=k[1], keys=list(s), val=v, join=False) for k, s, v in zip(kinds, ks, vs)]


def rand_sequence(rng, max_opts):
    n = rng.randint(1, max_opts)
    out = []
    for _ in range(n):
        k = rng.choice(OPT_KINDS + [("add", "raw"), ("file", "file")])
        out.append(dict(kind=k[0], lk=k[1], keys=list(rng.choice(KEYSETS)), val=rng.randint(1, 3)))
    if len(out) >= 3 and rng.random() < 0.5:          # the very same document twice, with other sources in between
        i = rng.randrange(0, len(out) - 2)
        j = rng.randrange(i + 2, len(out))
        out[j] = dict(out[j], keys=list(out[i]["keys"]), val=out[i]["val"], lk=out[j]["lk"])
    if rng.random() < 0.35:         # user-written ordered / priority loaders among the built-in ones
        for o in out:
            if o["kind"] in ("add", "set") and rng.random() < 0.5:
                o["lk"] = rng.choice(USER_LKS)
    if rng.random() < 0.4:          # variadic calls: Set/AddConfigLoader(l1, l2, ...) with loaders of any kind, file loaders included
        i = 0
        while i < len(out):
            if out[i]["kind"] in ("add", "set") and rng.random() < 0.6:
                if rng.random() < 0.4:
                    out[i]["lk"] = "file"
                j = i + 1
                while j < len(out) and out[j]["kind"] != "init" and rng.random() < 0.6:
                    out[j] = dict(out[j], kind="add", lk=rng.choice(["raw", "args", "file"]), join=True)
                    j += 1
                i = j
            else:
                i += 1
    if len(out) >= 2 and rng.random() < 0.3:          # an Initialize in the middle (shared Configure, two application starts)
        at = rng.randrange(1, len(out))
        if not out[at].get("join"):
            out.insert(at, dict(kind="init", lk="none", keys=[], val=0))
    return [dict(o, join=bool(o.get("join"))) for o in out]
