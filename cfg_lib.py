"""Scenario generation for configuration sources (C15)."""
import itertools, random
KEYSETS = [["a"], ["a", "b"], ["b", "c.x"], ["c.x", "c.y"], [], ["a", "b", "c.x", "c.y"], ["c.y"]]
OPT_KINDS = [("add", "raw"), ("add", "args"), ("set", "raw"), ("set", "args"), ("file", "file")]


def all_sequences(max_opts, keysets):
    for n in range(0, max_opts + 1):
        for kinds in itertools.product(OPT_KINDS, repeat=n):
            for ks in itertools.product(keysets, repeat=n):
                yield [dict(kind=k[0], lk=k[1], keys=list(s)) for k, s in zip(kinds, ks)]


def rand_sequence(rng, max_opts):
    n = rng.randint(1, max_opts)
    out = []
    for _ in range(n):
        k = rng.choice(OPT_KINDS + [("add", "raw"), ("file", "file")])
        out.append(dict(kind=k[0], lk=k[1], keys=list(rng.choice(KEYSETS))))
    return out
