"""Checks for the candidate-resolution family: C06 C07 C08 C10.

(A) TLC explores spec/Resolve.tla over constructive families (population x points x every iteration order);
(B) the real container resolves seeded and family scenarios (each under several registration / iteration /
    property orders); TraceResolve.tla validates the recorded stages (conformance) and evaluates the
    property operators on the states the code went through (monitor), including the direct cross-run
    comparison for C10.
"""
import json, os, random, itertools, threading
import vlib, engine_lib as el, resolve_lib as rl

FIX = dict(FixF1="TRUE", FixF2="TRUE", FixF3="TRUE", FixF13="TRUE")

INV = {
    "C06": ["C06_Sound", "C06_CompleteSlice", "C06_SingleOne"],
    "C07": ["C07_Exactly", "C07_MissingFails", "C07_Untouched", "C09_NoPanic"],
    "C08": ["C08_Qualifier", "C08_Preference", "C08_Independent"],
    "C10": ["C10_Status", "C10_Point"],
}
MON_EXTRA = {"C06": ["M_FieldsSound"], "C07": ["C10_Status"], "C08": [], "C10": ["M_C10_SameOutcome"]}      # C07: the named component is found whenever it exists

H3 = "{9, 10, 11}"
MC_FAMS = {
    ("C06", "quick"): [("MCResC06", dict(NProvs=2, ProvTypes="{1, 2, 4, 7, 12, 13}", HolderTypes=H3))],   # (zero-size types 15/16: real runs)
    ("C06", "thorough"): [("MCResC06", dict(NProvs=2, ProvTypes="{1, 2, 3, 4, 5, 6, 7, 8, 12, 13, 14}", HolderTypes=H3)),
                          ("MCResC06", dict(NProvs=3, ProvTypes="{2, 4, 7, 13}", HolderTypes=H3))],
    ("C07", "quick"): [("MCResC07", dict(NProvs=2, ProvTypes="{1, 2, 3, 4}", HolderTypes=H3))],
    ("C07", "thorough"): [("MCResC07", dict(NProvs=2, ProvTypes="{1, 2, 3, 4, 5, 6, 7, 13}", HolderTypes=H3)),
                          ("MCResC07", dict(NProvs=3, ProvTypes="{1, 2, 3}", HolderTypes="{9, 10}"))],
    ("C08", "quick"): [("MCResC08", dict(NProvs=2, ProvTypes="{2, 3, 4, 5, 8}", HolderTypes=H3, MaxPts=2))],
    ("C08", "thorough"): [("MCResC08", dict(NProvs=2, ProvTypes="{2, 3, 4, 5, 6, 8, 14}", HolderTypes=H3, MaxPts=2)),
                          ("MCResC08", dict(NProvs=3, ProvTypes="{3, 4, 5}", HolderTypes="{10, 11}", MaxPts=2)),
                          ("MCResC08", dict(NProvs=2, ProvTypes="{3, 5, 8}", HolderTypes="{10, 11}", MaxPts=3))],
    ("C10", "quick"): [("MCResC08", dict(NProvs=2, ProvTypes="{2, 3, 4, 5}", HolderTypes=H3, MaxPts=2)),
                       ("MCResC06", dict(NProvs=2, ProvTypes="{2, 4, 7, 13}", HolderTypes=H3))],
    ("C10", "thorough"): [("MCResC08", dict(NProvs=3, ProvTypes="{3, 4, 5}", HolderTypes="{10, 11}", MaxPts=2)),
                          ("MCResC06", dict(NProvs=3, ProvTypes="{2, 4, 7, 13}", HolderTypes=H3)),
                          ("MCResC07", dict(NProvs=2, ProvTypes="{1, 2, 3, 4, 5}", HolderTypes=H3))],
}


def model_check(run, prop, tier, workdir):
    notes = []
    for i, (mod, consts) in enumerate(MC_FAMS[(prop, tier)]):
        c = dict(Scenarios="{}", **FIX)
        c.update(consts)
        cfg = "%s_%d.cfg" % (mod, i)
        vlib.stage_specs(workdir, ["Resolve.tla", "MCResCommon.tla", mod + ".tla"])
        vlib.write_cfg(os.path.join(workdir, cfg), constants=c, init="MCInit", next_="Next", invariants=INV[prop])
        r = vlib.run_tlc(workdir, mod, cfg, workers=8, timeout=3000 if tier == "thorough" else 400, jvm=vlib.JVM_BIG)
        run.add_model_run("%s %s" % (mod, consts), r)
        if not r.ok:
            notes.append((mod, r))
    return notes


def family_sample(rng, prop, count):
    """python mirror of the MC families' shape: small populations, the point kinds under test"""
    out = []
    for i in range(count):
        out.append(rl.rand_scenario(rng, prop if prop != "C10" else rng.choice(["C06", "C07", "C08"]), "%s-f%d" % (prop, i),
                                    max_prov=2, max_pts=2))
    return out


def scenarios_for(prop, tier, rng):
    thorough = tier == "thorough"
    k_orders = 3 if prop != "C10" else 6
    base = []
    n_small, n_rand = (350, 500) if not thorough else (6000, 12000)
    base += family_sample(rng, prop, n_small)
    for i in range(n_rand):
        base.append(rl.rand_scenario(rng, prop if prop != "C10" else rng.choice(["C06", "C07", "C08"]), "%s-r%d" % (prop, i),
                                     max_prov=rng.choice([3, 5, 8]) if not thorough else rng.choice([3, 5, 8, 12])))
    scs = []
    for sc in base:
        for s in rl.with_orders(rng, sc, k_orders):
            s["split"] = rng.random() < 0.5
            s["seed"] = rng.randint(0, 2 ** 31)
            scs.append(s)
    return scs


def real_phase(run, prop, tier, wd, binary, scs, inv, mon_extra, tag="b"):
    """(B) run the scenarios on the real container, validate the recorded stages; registers violations in run;
    returns the number of drifted units"""
    bd = os.path.join(wd, tag)
    os.makedirs(bd)
    vlib.stage_specs(bd, ["Resolve.tla", "TraceResolve.tla"])
    vlib.write_ndjson(os.path.join(bd, "in.ndjson"), scs)
    p = vlib.run_harness(binary, ["resolve", "-in", "in.ndjson", "-out", "rt.ndjson"], cwd=bd)
    if p.returncode != 0:
        raise vlib.Infra("resolve harness failed: " + p.stderr[-1500:])
    groups = el.split_trace(os.path.join(bd, "rt.ndjson"))
    if len(groups) != len(scs):
        raise vlib.Infra("harness produced %d groups for %d scenarios" % (len(groups), len(scs)))
    units, cur, cur_key = [], None, None
    for g, sc in zip(groups, scs):
        key = json.dumps([sc["prov"], sc["pts"]], sort_keys=True)
        if key != cur_key:
            cur = []
            units.append(cur)
            cur_key = key
        cur.extend(g)
    consts = dict(Scenarios="<- TraceScenarios", **FIX)
    res, errs = {}, []
    def mon():
        res["mon"] = el.validate_groups(bd, units, "TraceResolve", consts, inv + mon_extra, [], "mon", spec="MonitorSpec")
    def conf():
        res["conf"] = el.validate_groups(bd, units, "TraceResolve", consts, inv, [], "conf")
    def g(fn):
        try:
            fn()
        except Exception as e:
            errs.append(e)
    ts = [threading.Thread(target=g, args=(mon,)), threading.Thread(target=g, args=(conf,))]
    for t in ts:
        t.start()
    for t in ts:
        t.join()
    if errs:
        raise errs[0]
    drift = 0
    for layer in ("mon", "conf"):
        st, fails = res[layer]
        run.cov["states"] += st["states"]
        run.cov["transitions"] += st["generated"]
        for f in fails:
            unit = units[f["group"]]
            sc0 = json.loads(unit[0])["sc"]
            if f["kind"] == "postcondition":
                if layer == "mon":
                    raise vlib.Infra("monitor could not consume a trace: " + f["tlc"][:500])
                drift += 1
                if drift <= 3:
                    vlib.log("DRIFT module=Resolve scenario=%s line=%d: %s" % (sc0["id"], f["line"], unit[min(f["line"], len(unit)) - 1].strip()[:300]))
                continue
            what = "%s: %s %s violated on the recorded run(s) of scenario %s" % (
                "monitor" if layer == "mon" else "conformance", f["kind"], f["name"], sc0["id"])
            ids = {json.loads(x)["sc"]["id"] for x in unit if '"ev":"scenario"' in x[:40]}
            run.violation(what, dict(family="resolve", scenarios=[s for s in scs if s["id"] in ids], operator=f["name"],
                                     trace=[json.loads(x) for x in unit][:60], tlc=f["tlc"][:2500]))
    run.cov["traces_validated_against_impl"] += len(groups)
    for sc in scs:
        nontrivial = any(p["ty"] not in (1, 6, 12) for p in sc["prov"][1:])
        run.count_case([sc["prov"], sc["pts"], sc["order"], sc["reg"], sc.get("split")], nontrivial)
    for u in units[:3]:
        run.sample([json.loads(x) for x in u[:5]])
    return drift


def engine_order_phase(run, tier, wd, binary, rng):
    """C10 on the creation engine: the same dependency graph under permuted registration order, candidate order, singleton
    name enumeration and edge realisation ends with the same status and the same objects in every field."""
    ed = os.path.join(wd, "eng")
    os.makedirs(ed)
    vlib.stage_specs(ed, ["MonitorContainer.tla"])
    scs = []
    for i in range(120 if tier == "quick" else 2500):
        n = rng.choice([3, 4, 6])
        base = el.rand_scenario(rng, n, p_edge=rng.choice([0.3, 0.5]), fails=rng.choice([0, 0, 0.2]), lazies=rng.choice([0, 0.3]),
                                wraps=rng.choice([0, 0, 0.3]), sid="C10-eng%d" % i)
        if i % 3 == 2:
            # candidates collected twice (second public collector registered), fan-in through slices into lazy, wrapped cycle
            # members: the order in which a slice's members are created decides whether a stale version is noticed
            base = el.rand_scenario(rng, n, p_edge=0.5, p_slice=0.7, lazies=0.5, wraps=0.5, sid="C10-eng%d" % i)
            base["extra"] = True
        base["kseed"] = rng.randint(1, 2 ** 31)      # one edge realisation (= one set of component definitions) per scenario
        for k in range(4):
            s = dict(base)
            o = list(range(1, n + 1)); rng.shuffle(o)
            g = list(range(1, n + 1)); rng.shuffle(g)
            # rawOrder: the real definition registry enumerates the candidates itself (no imposed order), so that the runs differ
            # exactly in what C10 quantifies over: registration order, name enumeration of the singleton registry, run-to-run
            # iteration order of the registries
            s.update(order=o, regOrder=g, seed=rng.randint(0, 2 ** 31), id="%s.p%d" % (base["id"], k), rawOrder=True)
            scs.append(s)
    by_n = {}
    for s in scs:
        by_n.setdefault(s["n"], []).append(s)
    for n, group in sorted(by_n.items()):
        tr = el.run_engine(binary, ed, group, name="o%d" % n)
        groups = el.split_trace(tr)
        os.remove(tr)
        units = [sum(groups[i:i + 4], []) for i in range(0, len(groups), 4)]     # the 4 permutations of one scenario
        st, fails = el.validate_groups(ed, units, "MonitorContainer", dict(N=n),
                                       ["M_C10_EngineSameOutcome", "M_C02_FailIffSelfOnly", "M_C09_FaultFails", "M_C02_NoReentry"], [], "eo%d" % n)
        run.cov["states"] += st["states"]
        run.cov["transitions"] += st["generated"]
        run.cov["traces_validated_against_impl"] += len(groups)
        for f in fails:
            u = units[f["group"]]
            sc0 = json.loads(u[0])["sc"]
            if f["kind"] == "postcondition":
                raise vlib.Infra("engine monitor could not consume a trace: " + f["tlc"][:400])
            run.violation("engine runs of scenario %s under different orders: %s violated" % (sc0["id"], f["name"]),
                          dict(kind="engine-order", scenarios=[json.loads(x)["sc"] for x in u if '"ev":"scenario"' in x[:40]], operator=f["name"]))
    for s in scs[::4]:
        run.count_case([s["single"], s["slice"], s["lazy"], s["wrap"], s["fail"]], True)


def registry_phase(run, tier, wd, binary):
    """C07: two distinct components can never be registered under one name (Registry.tla, replay direction)"""
    import re
    rd = os.path.join(wd, "reg")
    os.makedirs(rd)
    vlib.stage_specs(rd, ["Registry.tla", "MCRegistry.tla", "TraceRegistry.tla", "MCRegistryTrace.tla"])
    consts = dict(Objects="{1, 2, 3, 4, 5, 6, 7}", NameOf="<- NameOfDef", MaxOps=4 if tier == "quick" else 5)
    vlib.write_cfg(os.path.join(rd, "r.cfg"), constants=consts, spec="Spec", invariants=["C07_OnePerName", "Export"], properties=["C07_FirstWins"])
    r = vlib.run_tlc(rd, "MCRegistry", "r.cfg", workers=4, timeout=1800, jvm=vlib.JVM_BIG)
    run.add_model_run("Registry: every registration / lookup sequence of %s operations over 7 objects (4 names; two objects are field-less types that share their address)" % consts["MaxOps"], r)
    if not r.ok:
        raise vlib.Infra("Registry.tla: %s" % r.violated)
    hists = [json.loads(json.loads('"' + m + '"')) for m in re.findall(r'<<"REGHIST", "(.*)">>', r.out)]
    if len(hists) > 40000:
        hists = random.Random(run.seed).sample(hists, 40000)
    vlib.write_ndjson(os.path.join(rd, "h.ndjson"), hists)
    p = vlib.run_harness(binary, ["registry", "-in", "h.ndjson", "-out", "rt.ndjson"], cwd=rd)
    if p.returncode != 0:
        raise vlib.Infra("registry replay failed: " + p.stderr[-500:])
    groups = el.split_trace(os.path.join(rd, "rt.ndjson"), marker='"op":"hist"')
    tc = dict(consts, MaxOps=100)
    drift = 0
    for layer, spec, inv, props in (("monitor", "MonitorSpec", [], ["M_C07_GetReturnsRegistered", "M_C07_SecondRejected"]),
                                    ("conformance", "TraceSpec", ["C07_OnePerName"], [])):
        st, fails = el.validate_groups(rd, groups, "MCRegistryTrace", tc, inv, props, layer[:3], spec=spec)
        run.cov["states"] += st["states"]
        run.cov["transitions"] += st["generated"]
        for f in fails:
            if f["kind"] == "postcondition":
                if layer == "monitor":
                    raise vlib.Infra("registry monitor could not consume a history: " + f["tlc"][:300])
                drift += 1
                continue
            run.violation("real singleton registry (%s): %s violated" % (layer, f["name"]),
                          dict(kind="registry", history=[json.loads(x) for x in groups[f["group"]][1:]], operator=f["name"]))
    run.cov["traces_validated_against_impl"] += len(groups)
    run.cov["registry_histories_replayed"] = len(groups)
    run.sample(dict(registry_history=hists[len(hists) // 2]))
    return drift


def run_check(prop, tier, replay=None, label=None):
    run = vlib.Run(label or prop, tier, "model_checking")
    run.write_evidence = replay is None
    rng = random.Random(run.seed * 104729 + int(prop[1:]))
    workdir = vlib.scratch_dir(prop)
    try:
        notes, mc_err = [], []
        th = None
        if replay is None:
            os.makedirs(os.path.join(workdir, "mc"))
            def guarded():
                try:
                    notes.extend(model_check(run, prop, tier, os.path.join(workdir, "mc")))
                except Exception as e:
                    mc_err.append(e)
            th = threading.Thread(target=guarded)
            th.start()
        binary = vlib.build_harness(workdir)
        if replay is not None:
            scs = json.load(open(replay))["replay"]["scenarios"]
        else:
            scs = scenarios_for(prop, tier, rng)
        drift = real_phase(run, prop, tier, workdir, binary, scs, INV[prop], MON_EXTRA[prop])
        if prop == "C10" and replay is None:
            engine_order_phase(run, tier, workdir, binary, rng)
            # the goroutine schedules of the parallel scanning phase: what its goroutines share is the component-definition
            # registry; every TLC-enumerated interleaving of registry operations is replayed on the real registry with real
            # goroutines and must be explainable sequentially (a definition registered by one scanner is never lost to another)
            import check_conc
            d2 = check_conc.syncmap_phase(run, tier, workdir, binary, configs=check_conc.REG_CONFIGS[tier], what="definition registry")
            check_conc.regstress_phase(run, tier, workdir, binary)
            if d2:
                vlib.log("DRIFT: %d replayed registry schedule(s) behave differently from SyncMap.tla although no property failed" % d2)
                drift += d2
        if prop == "C06" and replay is None:
            # completeness rests on the registry enumerating every registered definition, also when user-written scanners
            # register and enumerate concurrently in the scanning phase: free-running registry histories (TraceRegHist.tla)
            import check_conc
            check_conc.regstress_phase(run, tier, workdir, binary)
        if prop == "C07" and replay is None:
            drift += registry_phase(run, tier, workdir, binary)
        if th:
            th.join()
            if mc_err:
                raise mc_err[0]
        run.cov["rule"] = ("scenario = holder + population of providers (type attributes: interface, qualifier method, Primary, "
                           "Mark method; instance attributes: custom name, qualifier string) x 1-3 injection points (kind, wire/func, "
                           "by type / by name, qualifier set, required) x candidate order x registration order x property order; "
                           "non-trivial = at least one provider that some point kind could match; distinct = distinct records")
        if drift:
            run.cov["model_binding"] = "drift"
            run.cov["drifted_scenarios"] = drift
            vlib.log("DRIFT: %d scenario(s) are not behaviours of Resolve.tla although no property failed on them" % drift)
        for (mod, r) in notes:
            vlib.log("MODEL-COUNTEREXAMPLE %s %s %s (not reproduced on real code)" % (mod, r.kind, r.violated))
        if notes and not run.violations:
            raise vlib.Infra("Resolve.tla admits a counterexample (%s) the real code did not reproduce: the specification needs fixing" % notes[0][1].violated)
        run.cov["exhaustive"] = True
        run.cov["explanation"] = "exhaustive = the listed TLC families (population x points x all iteration orders) were explored completely"
        run.assumptions += [
            "the pool types' attributes equal the table TA of Resolve.tla (a mismatch shows as conformance drift)",
            "by-type points of kind `any` are excluded: they collect the framework's own components (open population)",
            "iteration orders are driven through a wrapper around the real definition registry (GetMetas order) and the real singleton registry (name order)",
        ]
        return run.finish()
    finally:
        vlib.rm(workdir)


def known_match(k, sc, f):
    return False
