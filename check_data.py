"""Checks for the data-shaped properties: C19 (tag grammar), C11 (tag scanning), C17/C18 (value pipeline)."""
import json, os, random, threading
import vlib, engine_lib as el

TOKENS = [",", "=", " ", "(", ")", "[", "]", "{", "}", "required", "Required", "false", "False", "x", "X", "qualifier"]


def monitor_lines(run, bd, module, lines, consts, invariants, what, describe, chunk=30000):
    """validate a header-less trace (one record per line) in chunks; report the first offending record of each chunk"""
    for ci in range(0, len(lines), chunk):
        part = lines[ci:ci + chunk]
        path = os.path.join(bd, "chunk.ndjson")
        with open(path, "w") as f:
            f.writelines(part)
        start = 0
        nfail = 0
        while start < len(part) and nfail < 10:
            if start:
                with open(path, "w") as f:
                    f.writelines(part[start:])
            r = el.tlc_trace(bd, module, path, consts, invariants, [], "mon%d" % ci, spec="MonitorSpec", timeout=2400)
            run.cov["states"] += r.distinct
            run.cov["transitions"] += r.generated
            if r.ok:
                break
            if r.kind != "invariant":
                raise vlib.Infra("%s: %s" % (module, r.error_text[:600]))
            k = el._last_state_no(r.out)
            rec = json.loads(part[start + k - 2])
            run.violation("%s: %s violated (%s)" % (what, r.violated, describe(rec)), dict(record=rec, operator=r.violated))
            nfail += 1
            start = start + k - 1
    run.cov["traces_validated_against_impl"] += len(lines)


def run_c19(run, tier, wd, binary, replay):
    bd = os.path.join(wd, "b")
    os.makedirs(bd)
    vlib.stage_specs(bd, ["TagGrammar.tla", "MCTagGrammar.tla", "TraceTag.tla"])
    ml, el_ = (4, 4) if tier == "quick" else (5, 5)
    vlib.write_cfg(os.path.join(bd, "g.cfg"), constants=dict(MaxLen=ml, ExportLen=el_, OutFile='"tags.ndjson"'), spec="Spec", invariants=["Inv"])
    r = vlib.run_tlc(bd, "MCTagGrammar", "g.cfg", workers=8, timeout=3000, jvm=vlib.JVM_BIG)
    run.add_model_run("TagGrammar: declarative statements hold of the operational parse for every token string <= %d; export <= %d" % (ml, el_), r)
    if not r.ok:
        raise vlib.Infra("TagGrammar.tla: %s violated: the specification needs fixing" % r.violated)
    cases = [json.loads(x) for x in open(os.path.join(bd, "tags.ndjson"))]
    rng = random.Random(run.seed * 13 + 19)
    for _ in range(3000 if tier == "quick" else 60000):      # longer, structured and unstructured strings
        n = rng.randint(5, 14)
        if rng.random() < 0.5:
            toks = [rng.choice(["x", "required", ""])]
            for _ in range(rng.randint(1, 4)):
                toks += [",", rng.choice(["required", "Required", "qualifier", "x"]), "="]
                for _ in range(rng.randint(1, 3)):
                    toks += [rng.choice(["false", "x", "(", "x", " ", "x", ")", "[", "x", "]", "False"]), rng.choice([" ", ""])]
            toks = [t for t in toks if t]
        else:
            toks = [rng.choice(TOKENS) for _ in range(n)]
        cases.append(dict(tag=toks))
    if replay:
        cases = [json.load(open(replay))["replay"]["record"]]
    vlib.write_ndjson(os.path.join(bd, "in.ndjson"), cases)
    p = vlib.run_harness(binary, ["tags", "-in", "in.ndjson", "-out", "tt.ndjson"], cwd=bd)
    if p.returncode != 0:
        raise vlib.Infra("tags harness failed: " + p.stderr[-600:])
    lines = open(os.path.join(bd, "tt.ndjson")).readlines()
    monitor_lines(run, bd, "TraceTag", lines, {}, ["C19_Total", "C19_Faithful"], "real NewProperty",
                  lambda rec: "tag %r" % "".join(rec["tag"]))
    for c in cases[::5]:
        run.count_case(c["tag"], "," in c["tag"])
    run.sample(json.loads(lines[len(lines) // 2]))
    run.cov["rule"] = ("tags = every token string up to %d tokens over 12 tokens (exported by TLC) plus seeded longer structured / random strings; "
                       "non-trivial = has at least one top-level argument separator" % el_)
    run.assumptions += ["arbitrary byte strings are reached through the token quotient (the parser compares single ASCII bytes)",
                        "'balanced' is the splitter's notion: one depth counter for all bracket characters"]


def run_check(prop, tier, replay=None):
    run = vlib.Run(prop, tier, "model_checking")
    run.write_evidence = replay is None
    wd = vlib.scratch_dir(prop)
    try:
        binary = vlib.build_harness(wd)
        {"C19": run_c19, "C11": run_c11, "C17": run_c17, "C18": run_c18}[prop](run, tier, wd, binary, replay)
        run.cov["exhaustive"] = True
        run.cov.setdefault("explanation", "exhaustive = the listed TLC families were explored completely; real runs are the exported families plus seeded samples")
        return run.finish()
    finally:
        vlib.rm(wd)


def run_c11(run, tier, wd, binary, replay):
    bd = os.path.join(wd, "b")
    os.makedirs(bd)
    vlib.stage_specs(bd, ["Scan.tla", "MCScan.tla", "TraceTagScan.tla"])
    vlib.write_cfg(os.path.join(bd, "s.cfg"), constants=dict(Shapes="{}", OutFile='"shapes.ndjson"', Depth=3), init="MCInit", next_="Next",
                   invariants=["C11_Flatten", "C11_Exactly", "C11_Frame", "C11_Once"])
    r = vlib.run_tlc(bd, "MCScan", "s.cfg", workers=8, timeout=3000, jvm=vlib.JVM_BIG)
    run.add_model_run("Scan: scanFields state machine vs declarative ownership / flattening on every shape of the family", r)
    if not r.ok:
        raise vlib.Infra("Scan.tla: %s violated: the specification needs fixing" % r.violated)
    shapes = [json.loads(x) for x in open(os.path.join(bd, "shapes.ndjson"))]
    rng = random.Random(run.seed * 17 + 11)
    for _ in range(300 if tier == "quick" else 6000):          # deeper / wider random shapes
        shapes.append(dict(shape=rand_shape(rng)))
    # every shape with a struct field a second time with leaves named by POSITION: fields of different embedded structs then share
    # names and outer fields shadow promoted ones (the specification is name-agnostic: nothing may change)
    shapes += [dict(shape=s["shape"], pos=True) for s in list(shapes) if any(n["k"] == "struct" for n in s["shape"])]
    if replay:
        rr = json.load(open(replay))["replay"]["record"]
        shapes = [dict(shape=rr["shape"], pos=bool(rr.get("pos")))]
    vlib.write_ndjson(os.path.join(bd, "in.ndjson"), shapes)
    p = vlib.run_harness(binary, ["scan", "-in", "in.ndjson", "-out", "st.ndjson"], cwd=bd)
    if p.returncode != 0:
        raise vlib.Infra("scan harness failed: " + p.stderr[-800:])
    lines = open(os.path.join(bd, "st.ndjson")).readlines()
    monitor_lines(run, bd, "TraceTagScan", lines, dict(Shapes="{}"),
                  ["C11_Exactly_Bound", "C11_Frame_Untouched", "C11_Exactly_Custom", "C11_Flatten_Same", "C11_RunOk"],
                  "real tag scan", lambda rec: "shape with %d root field(s)%s" % (len(rec["shape"]), ", leaves named by position" if rec.get("pos") else ""), chunk=4000)
    for sh in shapes:
        run.count_case([sh["shape"], sh.get("pos", False)], any(n["k"] == "struct" for n in sh["shape"]))
    run.sample(json.loads(lines[len(lines) // 3]))
    run.cov["rule"] = ("shapes = every field tree of the bounded family (depth <= 3; anonymous / named, tagged / untagged, by-value / pointer "
                       "struct fields; value, prop, custom, foreign, untagged leaves; a compile-time block with an unexported tagged field; an "
                       "embed of an unexported type) exported by TLC, plus seeded deeper shapes; non-trivial = has a struct field")
    run.assumptions += ["reflect.StructOf builds the holder types; unexported fields come from generated compile-time blocks",
                        "leaves are string fields for value / prop / prefix / custom / foreign / untagged, a pointer for wire, interfaces for func and logger"]


def rand_shape(rng, depth=4):
    """random field tree with preorder ids (no unexported parts: StructOf cannot build them at arbitrary places)"""
    counter = [0]
    def leaf():
        counter[0] += 1
        return dict(k="leaf", tag=rng.choice(["none", "value", "prop", "cust", "foreign", "value", "prefix", "wire", "func", "logger"]), anon=False, ptr=False, exp=True, id=counter[0], kids=[])
    def node(d):
        if d == 0 or rng.random() < 0.45:
            return leaf()
        counter[0] += 1
        me = dict(k="struct", tag=rng.choice(["none", "none", "none", "cust", "foreign"]), anon=rng.random() < 0.7, ptr=rng.random() < 0.15,
                  exp=True, id=counter[0], kids=[])
        me["kids"] = [node(d - 1) for _ in range(rng.randint(1, 3))]
        return me
    return [node(depth) for _ in range(rng.randint(1, 4))]


def value_model(run, bd):
    vlib.stage_specs(bd, ["ValuePipe.tla", "MCValuePipe.tla", "TraceValuePipe.tla"])
    vlib.write_cfg(os.path.join(bd, "v.cfg"), constants=dict(OutFile='"exprs.ndjson"'), spec="Spec", invariants=["TwinExceptKnown", "Consistent"])
    r = vlib.run_tlc(bd, "MCValuePipe", "v.cfg", workers=2, timeout=1200, jvm=vlib.JVM_BIG,
                     extra=["-nowarning"])
    run.add_model_run("ValuePipe: class table (twin relation except the known F10 classes, consistency of the case analysis); export of expression cases", r)
    if not r.ok:
        raise vlib.Infra("ValuePipe.tla: %s violated: the specification needs fixing" % r.violated)


def run_c17(run, tier, wd, binary, replay):
    import vp_lib as vl
    run.level = "other"
    bd = os.path.join(wd, "b")
    os.makedirs(bd)
    value_model(run, bd)
    rng = random.Random(run.seed * 19 + 17)
    cases = vl.twin_cases(rng, True)
    cases += vl.random_reps(rng, 60 if tier == "quick" else 2500)     # seeded magnitudes / shapes inside the identity classes
    cases += vl.alias_cases()
    if replay:
        rec = json.load(open(replay))["replay"]["record"]
        cases = [c for c in cases if c["kind"] == rec["kind"] and c.get("class") == rec.get("class") and c["ftype"] == rec["ftype"]]
    vlib.write_ndjson(os.path.join(bd, "in.ndjson"), cases)
    p = vlib.run_harness(binary, ["values", "-in", "in.ndjson", "-out", "vt.ndjson"], cwd=bd)
    if p.returncode != 0:
        raise vlib.Infra("values harness failed: " + p.stderr[-800:])
    lines = open(os.path.join(bd, "vt.ndjson")).readlines()
    monitor_lines(run, bd, "TraceValuePipe", lines, {}, ["C17_TwinHolds", "C17_LiteralAsWritten", "C17_PropIsValue", "C17_PrefixExact", "C09_NoPanic"],
                  "real binding", lambda rec: ("class %s into %s%s: configured %s, prefix %s, value %s, prop %s, literal %s" % (
                      rec.get("class"), rec.get("ftype"), " (field preset)" if rec.get("preset") else "", rec.get("cfg"), rec.get("P"), rec.get("V"), rec.get("Q"), rec.get("L")))
                  if rec["kind"] == "twin" else "key bound by two components, the first writes through its %s: configured %s, second got %s / %s, configuration now %s" % (
                      rec.get("ftype"), rec.get("want"), rec.get("bp"), rec.get("bv"), rec.get("get")))
    # known finding F10: the cells where the value path is known to differ from the prefix path
    known = {k["id"]: k for k in vlib.known_for("C17")}
    seen_cells = set()
    for ln in lines:
        rec = json.loads(ln)
        if rec["kind"] != "twin":
            continue
        if rec["P"]["ok"] and not (rec["V"]["ok"] and rec["V"]["val"] == rec["P"]["val"]):
            seen_cells.add((rec["class"], rec["ftype"]))
    for k in known.values():
        cells = {(c, ft) for c, fts in k["signature"]["cells"].items() for ft in fts}
        hit = seen_cells & cells
        if hit:
            run.known(k, "%d of the listed (class, field type) cells still differ, e.g. %s" % (len(hit), sorted(hit)[0]))
    for c in cases:
        run.count_case([c.get("class", c["kind"]), c["ftype"], c["yaml"], c.get("preset")], True)
    run.sample(json.loads(lines[len(lines) // 2]))
    run.cov["rule"] = ("cases = lexical value class (34 classes, 1-6 concrete representatives each) x field type (12: scalars, slices, map, any, pointers, "
                       "struct, pointer to struct) x field zero / preset before the start; each bound by prefix, by placeholder, by prop and as a "
                       "literal in four separate starts; all are non-trivial")
    run.cov["explanation"] = ("ValuePipe.tla transcribes the first-match case analysis of FormatAny/ParseAny over lexical classes and predicts, per class "
                              "and field type, whether the text round trip of the value path is the identity; TLC checks the table's consistency; every "
                              "cell is executed on the real container with concrete representatives and judged by TraceValuePipe.tla. Magnitudes and "
                              "precisions beyond the representatives are not decided (encode/decode fidelity over an unbounded domain is outside this technique).")
    run.assumptions += ["'compatible field type' = the prefix path succeeds for that value",
                        "the known-finding cells (F10) are excluded exactly as listed in known_findings.jsonl; any other differing cell is a violation"]


def missing_phase(run, wd, binary, tag="missing"):
    """C09: a required configuration value that is missing fails start-up with an error (no panic); an optional one leaves the zero value"""
    import vp_lib as vl
    bd = os.path.join(wd, tag)
    os.makedirs(bd)
    value_model(run, bd)
    cases = vl.missing_cases()
    vlib.write_ndjson(os.path.join(bd, "in.ndjson"), cases)
    p = vlib.run_harness(binary, ["values", "-in", "in.ndjson", "-out", "vt.ndjson"], cwd=bd)
    if p.returncode != 0:
        raise vlib.Infra("values harness failed: " + p.stderr[-800:])
    lines = open(os.path.join(bd, "vt.ndjson")).readlines()
    monitor_lines(run, bd, "TraceValuePipe", lines, {}, ["C09_MissingConfig", "C09_NoPanic"], "missing configuration value",
                  lambda rec: "%s tag into %s, required=%s: ok=%s panic=%s zero=%s" % (rec.get("tag"), rec.get("ftype"), rec.get("required"), rec.get("ok"), rec.get("panic"), rec.get("zero")))
    for c in cases:
        run.count_case(c, True)
    run.sample(json.loads(lines[0]))


def run_c18(run, tier, wd, binary, replay):
    import vp_lib as vl
    run.level = "other"
    bd = os.path.join(wd, "b")
    os.makedirs(bd)
    value_model(run, bd)
    rng = random.Random(run.seed * 23 + 18)
    exprs = [json.loads(x) for x in open(os.path.join(bd, "exprs.ndjson"))]
    if tier == "quick":
        exprs = rng.sample(exprs, 2500)
    cases = [dict(kind="expr", text=e["text"], cfg=e["cfg"], val=e["val"]) for e in exprs]
    # ... and with every placeholder written with a computed key (${${ka}}, ka: a): nesting inside an expression; same result
    cases += [dict(kind="expr", text=e["text"], cfg=e["cfg"], val=e["val"], nest=True) for e in exprs[::3] if "${" in e["text"]]
    # the field receives the expression's result whatever numeric type it has: small non-negative results also into sized, unsigned,
    # float and pointer fields (the expected text is the same)
    sized = ["int", "int64", "int32", "int8", "uint16", "float32", "puint8"]
    cases += [dict(kind="expr", text=e["text"], cfg=e["cfg"], val=e["val"], ftype=sized[i % len(sized)])
              for i, e in enumerate(x for x in exprs if str(x["val"]).isdigit() and int(x["val"]) <= 100)]
    cases += vl.validate_cases(rng, 300 if tier == "quick" else 5000)
    cases += vl.struct_validate_cases(rng, 150 if tier == "quick" else 3000)
    cases += vl.modifier_cases(rng, 200 if tier == "quick" else 4000)
    if replay:
        rec = json.load(open(replay))["replay"]["record"]
        if rec["kind"] == "expr":
            cases = [dict(kind="expr", text=rec["text"], cfg=rec["cfg"], val=rec["want"], ftype=rec.get("ftype", ""), nest=bool(rec.get("nest")))]
        elif rec["kind"] == "vslice":
            cases = [dict(kind="vslice", xs=rec["xs"], cons=rec["cons"])]
        elif rec["kind"] == "vnest":
            cases = [dict(kind="vnest", ptr=rec["ptr"], nx=rec["nx"])]
        else:
            cases = [dict(kind=rec["kind"], val=rec["x"], cons=rec["cons"])]
    vlib.write_ndjson(os.path.join(bd, "in.ndjson"), cases)
    p = vlib.run_harness(binary, ["values", "-in", "in.ndjson", "-out", "vt.ndjson"], cwd=bd, timeout=1800)
    if p.returncode != 0:
        raise vlib.Infra("values harness failed: " + p.stderr[-800:])
    lines = open(os.path.join(bd, "vt.ndjson")).readlines()
    monitor_lines(run, bd, "TraceValuePipe", lines, {}, ["C18_ExprResult", "C18_ValidateIff", "C09_NoPanic"], "real binding",
                  lambda rec: ("expression %r with %s into a field of type %s: bound %s, expected %s" % (rec.get("text"), rec.get("cfg"), rec.get("ftype") or "any", rec.get("got"), rec.get("want")))
                  if rec["kind"] == "expr" else ("%s value %s with constraints %s: ok=%s" % (rec["kind"], rec.get("x", rec.get("xs", rec.get("nx"))), rec.get("cons", "required on a nested struct member (pointer=%s)" % rec.get("ptr")), rec.get("ok"))), chunk=5000)
    for c in cases:
        run.count_case(c, c["kind"] in ("validate", "vslice", "vstruct", "vnest") or "${" in c.get("text", ""))
    run.sample(json.loads(lines[min(7, len(lines) - 1)]))
    run.sample(json.loads(lines[-1]))
    run.cov["rule"] = ("expression cases = every tree up to depth 2 over + - * > == && ||, literals 0..3 / true / false and placeholders ${a} ${b} x 3 "
                       "configurations, exported by TLC with the value TLA+ computes (ill-typed ones: error); validation cases = every value 0..3 x every "
                       "single constraint, plus seeded combinations, plus the positional modifiers: omitempty before / after every constraint on every value, "
                       "dive on lists of 1-4 elements with constraints on the length before it and on the elements after it; non-trivial = has a placeholder inside the expression, or is a validation case")
    run.cov["explanation"] = ("the stage order of orders.go is the pipeline of ValuePipe.tla; the expression fragment and the constraints are evaluated by TLA+ "
                              "itself and compared with what the real container bound / whether start-up failed; the full expr / validator languages are out of scope")
    run.assumptions += ["fully parenthesised expressions, integers and booleans only", "constraints required / min / max / eq and the modifiers omitempty / dive, on int and []int fields"]
