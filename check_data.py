"""Checks for the data-shaped properties: C19 (tag grammar), C11 (tag scanning), C17/C18 (value pipeline)."""
import json, os, random, threading
import vlib, engine_lib as el

TOKENS = [",", "=", " ", "(", ")", "[", "]", "{", "}", "required", "Required", "false", "False", "x", "X", "qualifier"]


def monitor_lines(run, bd, module, lines, consts, invariants, what, describe, chunk=30000):
    """validate a header-less trace (one record per line) in chunks; report the first offending record of each chunk"""
    for ci in range(0, len(lines), chunk):
        part = lines[ci:ci + chunk]
        path = os.path.join(bd, "chunk.ndjson")
        with open(path, "w") as f:
            f.writelines(part)
        start = 0
        nfail = 0
        while start < len(part) and nfail < 10:
            if start:
                with open(path, "w") as f:
                    f.writelines(part[start:])
            r = el.tlc_trace(bd, module, path, consts, invariants, [], "mon%d" % ci, spec="MonitorSpec", timeout=2400)
            run.cov["states"] += r.distinct
            run.cov["transitions"] += r.generated
            if r.ok:
                break
            if r.kind != "invariant":
                raise vlib.Infra("%s: %s" % (module, r.error_text[:600]))
            k = el._last_state_no(r.out)
            rec = json.loads(part[start + k - 2])
            run.violation("%s: %s violated (%s)" % (what, r.violated, describe(rec)), dict(record=rec, operator=r.violated))
            nfail += 1
            start = start + k - 1
    run.cov["traces_validated_against_impl"] += len(lines)


def run_c19(run, tier, wd, binary, replay):
    bd = os.path.join(wd, "b")
    os.makedirs(bd)
    vlib.stage_specs(bd, ["TagGrammar.tla", "MCTagGrammar.tla", "TraceTag.tla"])
    ml, el_ = (4, 4) if tier == "quick" else (5, 5)
    vlib.write_cfg(os.path.join(bd, "g.cfg"), constants=dict(MaxLen=ml, ExportLen=el_, OutFile='"tags.ndjson"'), spec="Spec", invariants=["Inv"])
    r = vlib.run_tlc(bd, "MCTagGrammar", "g.cfg", workers=8, timeout=3000, jvm=vlib.JVM_BIG)
    run.add_model_run("TagGrammar: declarative statements hold of the operational parse for every token string <= %d; export <= %d" % (ml, el_), r)
    if not r.ok:
        raise vlib.Infra("TagGrammar.tla: %s violated: the specification needs fixing" % r.violated)
    cases = [json.loads(x) for x in open(os.path.join(bd, "tags.ndjson"))]
    rng = random.Random(run.seed * 13 + 19)
    for _ in range(3000 if tier == "quick" else 60000):      # longer, structured and unstructured strings
        n = rng.randint(5, 14)
        if rng.random() < 0.5:
            toks = [rng.choice(["x", "required", ""])]
            for _ in range(rng.randint(1, 4)):
                toks += [",", rng.choice(["required", "Required", "qualifier", "x"]), "="]
                for _ in range(rng.randint(1, 3)):
                    toks += [rng.choice(["false", "x", "(", "x", " ", "x", ")", "[", "x", "]", "False"]), rng.choice([" ", ""])]
            toks = [t for t in toks if t]
        else:
            toks = [rng.choice(TOKENS) for _ in range(n)]
        cases.append(dict(tag=toks))
    if replay:
        cases = [json.load(open(replay))["replay"]["record"]]
    vlib.write_ndjson(os.path.join(bd, "in.ndjson"), cases)
    p = vlib.run_harness(binary, ["tags", "-in", "in.ndjson", "-out", "tt.ndjson"], cwd=bd)
    if p.returncode != 0:
        raise vlib.Infra("tags harness failed: " + p.stderr[-600:])
    lines = open(os.path.join(bd, "tt.ndjson")).readlines()
    monitor_lines(run, bd, "TraceTag", lines, {}, ["C19_Total", "C19_Faithful"], "real NewProperty",
                  lambda rec: "tag %r" % "".join(rec["tag"]))
    for c in cases[::5]:
        run.count_case(c["tag"], "," in c["tag"])
    run.sample(json.loads(lines[len(lines) // 2]))
    run.cov["rule"] = ("tags = every token string up to %d tokens over 12 tokens (exported by TLC) plus seeded longer structured / random strings; "
                       "non-trivial = has at least one top-level argument separator" % el_)
    run.assumptions += ["arbitrary byte strings are reached through the token quotient (the parser compares single ASCII bytes)",
                        "'balanced' is the splitter's notion: one depth counter for all bracket characters"]


def run_check(prop, tier, replay=None):
    run = vlib.Run(prop, tier, "model_checking")
    wd = vlib.scratch_dir(prop)
    try:
        binary = vlib.build_harness(wd)
        {"C19": run_c19, "C11": run_c11, "C17": run_c17, "C18": run_c18}[prop](run, tier, wd, binary, replay)
        run.cov["exhaustive"] = True
        run.cov.setdefault("explanation", "exhaustive = the listed TLC families were explored completely; real runs are the exported families plus seeded samples")
        return run.finish()
    finally:
        vlib.rm(wd)


def run_c11(run, tier, wd, binary, replay):
    bd = os.path.join(wd, "b")
    os.makedirs(bd)
    vlib.stage_specs(bd, ["Scan.tla", "MCScan.tla", "TraceTagScan.tla"])
    vlib.write_cfg(os.path.join(bd, "s.cfg"), constants=dict(Shapes="{}", OutFile='"shapes.ndjson"', Depth=3), init="MCInit", next_="Next",
                   invariants=["C11_Flatten", "C11_Exactly", "C11_Frame", "C11_Once"])
    r = vlib.run_tlc(bd, "MCScan", "s.cfg", workers=8, timeout=3000, jvm=vlib.JVM_BIG)
    run.add_model_run("Scan: scanFields state machine vs declarative ownership / flattening on every shape of the family", r)
    if not r.ok:
        raise vlib.Infra("Scan.tla: %s violated: the specification needs fixing" % r.violated)
    shapes = [json.loads(x) for x in open(os.path.join(bd, "shapes.ndjson"))]
    rng = random.Random(run.seed * 17 + 11)
    for _ in range(300 if tier == "quick" else 6000):          # deeper / wider random shapes
        shapes.append(dict(shape=rand_shape(rng)))
    if replay:
        shapes = [dict(shape=json.load(open(replay))["replay"]["record"]["shape"])]
    vlib.write_ndjson(os.path.join(bd, "in.ndjson"), shapes)
    p = vlib.run_harness(binary, ["scan", "-in", "in.ndjson", "-out", "st.ndjson"], cwd=bd)
    if p.returncode != 0:
        raise vlib.Infra("scan harness failed: " + p.stderr[-800:])
    lines = open(os.path.join(bd, "st.ndjson")).readlines()
    monitor_lines(run, bd, "TraceTagScan", lines, dict(Shapes="{}"),
                  ["C11_Exactly_Bound", "C11_Frame_Untouched", "C11_Exactly_Custom", "C11_Flatten_Same", "C11_RunOk"],
                  "real tag scan", lambda rec: "shape with %d root field(s)" % len(rec["shape"]), chunk=4000)
    for sh in shapes:
        run.count_case(sh["shape"], any(n["k"] == "struct" for n in sh["shape"]))
    run.sample(json.loads(lines[len(lines) // 3]))
    run.cov["rule"] = ("shapes = every field tree of the bounded family (depth <= 3; anonymous / named, tagged / untagged, by-value / pointer "
                       "struct fields; value, prop, custom, foreign, untagged leaves; a compile-time block with an unexported tagged field; an "
                       "embed of an unexported type) exported by TLC, plus seeded deeper shapes; non-trivial = has a struct field")
    run.assumptions += ["reflect.StructOf builds the holder types; unexported fields come from generated compile-time blocks",
                        "leaves are string fields; wire / func / logger / prefix tags on embedded shapes are exercised by the other checks' holders"]


def rand_shape(rng, depth=4):
    """random field tree with preorder ids (no unexported parts: StructOf cannot build them at arbitrary places)"""
    counter = [0]
    def leaf():
        counter[0] += 1
        return dict(k="leaf", tag=rng.choice(["none", "value", "prop", "cust", "foreign", "value"]), anon=False, ptr=False, exp=True, id=counter[0], kids=[])
    def node(d):
        if d == 0 or rng.random() < 0.45:
            return leaf()
        counter[0] += 1
        me = dict(k="struct", tag=rng.choice(["none", "none", "none", "cust", "foreign"]), anon=rng.random() < 0.7, ptr=rng.random() < 0.15,
                  exp=True, id=counter[0], kids=[])
        me["kids"] = [node(d - 1) for _ in range(rng.randint(1, 3))]
        return me
    return [node(depth) for _ in range(rng.randint(1, 4))]


def run_c17(run, tier, wd, binary, replay):
    raise vlib.Infra("not built yet")


def run_c18(run, tier, wd, binary, replay):
    raise vlib.Infra("not built yet")
