"""Scenario generation for the App family (C12 C13 C14, application-level C09)."""
import random
CLS = ["prio", "ord", "un", "mark"]      # mark = Priority marker without Order(): sequenced with the unordered ones
ORDS = [-1, 0, 1, 0, 2, -1000000, 1000000, 5, -7]   # +-1000000 stand for MinInt / MaxInt (harness maps them)


def part(rng, fail=False, small=False):
    return dict(cls=rng.choice(CLS), ord=rng.choice(ORDS[:3] if small else ORDS), fail=fail, doc="")


def scenario(rng, sid, focus, big=False):
    mx = 8 if big else 4
    sc = dict(id=sid, loaders=[], procs=[], runners=[], closers=[], comps=0, initFail=0, seed=rng.randint(0, 2 ** 31), closeOrder=[], cycle=False, hold=0, restart=False)
    if focus in ("C12", "mix"):
        sc["procs"] = [part(rng) for _ in range(rng.randint(0, mx))]
        sc["loaders"] = [part(rng) for _ in range(rng.randint(0, mx))]
        sc["runners"] = [part(rng) for _ in range(rng.randint(0, mx))]
        sc["comps"] = rng.randint(1, 3)
    if focus in ("C13", "C09", "mix"):
        sc["runners"] = [part(rng) for _ in range(rng.randint(0, mx))]
        sc["comps"] = rng.randint(0, 3)
        sc["procs"] = [part(rng) for _ in range(rng.randint(0, 2))]
        sc["loaders"] = [part(rng) for _ in range(rng.randint(0, 2))]
        r = rng.random()
        if r < 0.35 and sc["runners"]:
            rng.choice(sc["runners"])["fail"] = True
        elif r < 0.5 and sc["comps"]:
            sc["initFail"] = rng.randint(1, sc["comps"])
        elif r < 0.62 and sc["loaders"]:
            rng.choice(sc["loaders"])["fail"] = True
        if focus == "C09" and rng.random() < 0.4:      # faults in pairs
            if sc["runners"]:
                rng.choice(sc["runners"])["fail"] = True
            if sc["comps"] and rng.random() < 0.5:
                sc["initFail"] = rng.randint(1, sc["comps"])
    if focus in ("C14", "mix"):
        n = rng.randint(0, 12 if big else 5)
        if rng.random() < 0.12:
            n = rng.randint(9, 24)      # more closers than any plausible worker-pool bound
        # up to three closers are realised by distinct FIELD-LESS types (the harness takes the first three marked ones)
        sc["closers"] = [dict(cls="un", ord=0, fail=rng.random() < 0.4, doc="", zero=rng.random() < 0.4) for _ in range(n)]
        co = list(range(1, n + 1)); rng.shuffle(co)
        sc["closeOrder"] = co
        if focus == "C14":
            sc["comps"] = rng.randint(0, 1)
    # k000 <-> k001: the processors' early-reference callbacks fire (in the contract's sequence) while k001 is populated
    sc["cycle"] = bool(sc["comps"] >= 1 and sc["procs"] and rng.random() < 0.5)
    sc["restart"] = focus in ("C13", "mix") and rng.random() < 0.3      # the same App started a second time, without components
    for r_ in sc["loaders"] + sc["procs"]:
        r_["zero"] = rng.random() < 0.3      # the first marked unordered loader / processor is realised by a field-less type
    for c_ in sc["closers"]:
        c_["lazy"] = (not c_.get("zero")) and rng.random() < 0.3      # a LazyInit closer: only the App's own closer slice asks for it
    for r_ in sc["runners"]:
        # an Order() that settles during start-up (decoy until the last plain component is initialised, after the App)
        r_["dyn"] = r_["cls"] in ("ord", "prio") and sc["comps"] >= 1 and rng.random() < 0.3
    for r_ in sc["runners"]:
        r_["zero"] = (not r_.get("dyn")) and rng.random() < 0.3      # realised by a field-less runner type (at most one per class; the harness falls back otherwise)
    for i, ld in enumerate(sc["loaders"]):
        ld["doc"] = "k%d: %d\n" % (i, i)
    return sc
