#!/usr/bin/env python3
"""Entry point: python3 check.py <ID> [--tier quick|thorough] [--replay path] | --setup

exit 0 property held on everything explored; exit 1 + 'VIOLATION property=<id> replay=<path>';
exit 2 infrastructure trouble.  Rebuilds the harness from /repo's working tree on every run."""
import argparse, os, sys
sys.path.insert(0, os.path.dirname(os.path.abspath(__file__)))
import vlib

ENGINE = {"C01", "C02", "C03", "C04", "C05", "C09"}
RESOLVE = {"C06", "C07", "C08", "C10"}
APP = {"C12", "C13", "C14"}
CONC = {"C20"}
CFG = {"C15", "C16"}
DATA = {"C11", "C17", "C18", "C19"}


def setup():
    import subprocess, shutil
    for tool in ("java", "go"):
        if not shutil.which(tool):
            raise vlib.Infra("missing tool: " + tool)
    d = vlib.scratch_dir("setup")
    try:
        vlib.build_harness(d)          # warms the Go build cache
        vlib.build_harness(d, race=True)
    finally:
        vlib.rm(d)
    vlib.log("setup ok")
    return 0


def main():
    ap = argparse.ArgumentParser()
    ap.add_argument("prop", nargs="?")
    ap.add_argument("--tier", default=os.environ.get("VERIF_TIER", "quick"), choices=["quick", "thorough"])
    ap.add_argument("--replay")
    ap.add_argument("--setup", action="store_true")
    a = ap.parse_args()
    if a.setup:
        return setup()
    if a.replay:
        # composite checks (C09, C13, C10) record which family a violation came from
        import json as _json
        rp = _json.load(open(a.replay)).get("replay", {})
        fam = rp.get("family")
        if fam is None and isinstance(rp.get("scenario"), dict):
            fam = "engine" if "single" in rp["scenario"] else ("app" if "loaders" in rp["scenario"] else None)
        if fam is None and "scenarios" in rp:
            fam = "resolve"
        if fam == "engine":
            import check_engine
            return check_engine.run_check(a.prop if a.prop in ENGINE else "C09", a.tier, a.replay, label=a.prop)
        if fam == "resolve":
            import check_resolve
            return check_resolve.run_check(a.prop if a.prop in RESOLVE else "C07", a.tier, a.replay, label=a.prop)
        if fam == "app":
            import check_app
            return check_app.run_check(a.prop if a.prop in APP else "C13", a.tier, a.replay, label=a.prop)
    if a.prop in ENGINE:
        import check_engine
        return check_engine.run_check(a.prop, a.tier, a.replay)
    if a.prop in RESOLVE:
        import check_resolve
        return check_resolve.run_check(a.prop, a.tier, a.replay)
    if a.prop in APP:
        import check_app
        return check_app.run_check(a.prop, a.tier, a.replay)
    if a.prop in CONC:
        import check_conc
        return check_conc.run_check(a.prop, a.tier, a.replay)
    if a.prop in CFG:
        import check_cfg
        return check_cfg.run_check(a.prop, a.tier, a.replay)
    if a.prop in DATA:
        import check_data
        return check_data.run_check(a.prop, a.tier, a.replay)
    raise vlib.Infra("no check registered for %r" % a.prop)


if __name__ == "__main__":
    vlib.main_wrapper(main)
