"""Representatives of the lexical value classes of spec/ValuePipe.tla (C17) and constraint cases (C18)."""
import json, random

def q(s):      # YAML double-quoted scalar
    return json.dumps(s)

REPS = {   # class -> list of (yaml text for the value of key k, literal text or None)
    "plain": [(q("hello"), "hello"), (q("a b"), None), (q("x;y"), "x;y"), (q("k:v"), "k:v"), (q("a_b"), "a_b"), (q("(p)"), "(p)")],
    "braceNonJson": [(q("{a}"), None)], "paren": [(q("(p q)"), None)], "nilText": [(q("<nil>"), "<nil>")],
    "numCanon": [(q("15"), "15"), (q("2.5"), "2.5")], "numNeg": [(q("-5"), "-5")],
    "numTrail0": [(q("1.10"), "1.10"), (q("3.0"), "3.0")], "numLead0": [(q("007"), "007")], "numPlus": [(q("+5"), "+5")],
    "exp": [(q("1e3"), "1e3")], "hex": [(q("0x10"), "0x10")],
    "boolLower": [(q("true"), "true"), (q("false"), "false")], "boolOther": [(q("TRUE"), "TRUE"), (q("False"), "False")],
    "squoted": [(q("'q'"), "'q'")], "dquoted": [(q('"dq"'), None)],
    "bracket": [(q("[a,b]"), "[a,b]")], "jsonObj": [(q('{"a":1}'), None)], "mapLit": [(q("map[a:b]"), "map[a:b]")],
    "empty": [(q(""), None)], "hash": [(q("#{1+1}"), None)],
    "intSmall": [("7", None), ("0", None), ("-3", None)], "intBig": [("9007199254740993", None), ("9223372036854775807", None)],
    "floatFrac": [("2.5", None), ("0.1", None)], "floatBig": [("1e21", None)], "floatTiny": [("0.00001", None)], "boolTrue": [("true", None), ("false", None)],
    "listInt": [("[1, 2]", None)], "listStr": [('["a", "b"]', None)], "listNumStr": [('["1", "02"]', None)], "listEmpty": [("[]", None)],
    "mapStruct": [('{a: 5, b: hey, l: [1, 2], m: {x: 1}}', None)],
    "mapFlat": [('{a: 1, b: x}', None)], "mapNested": [('{a: {b: [1, 2]}, c: "1.10"}', None)], "mapEmpty": [("{}", None)],
}
FTYPES = ["string", "int", "float64", "bool", "strs", "ints", "map", "any", "pint", "pstr", "struct", "pstruct"]


def twin_cases(rng, all_reps):
    out = []
    for cls, reps in REPS.items():
        chosen = reps if all_reps else [rng.choice(reps)]
        for (y, lit) in chosen:
            for ft in FTYPES:
                for pre in (False, True):      # the field is zero / already holds a value of its type before the start
                    out.append(dict(kind="twin", **{"class": cls}, ftype=ft, yaml="k: %s\n" % y, lit=lit or "", preset=pre))
    return out


def validate_cases(rng, n):
    kinds = ["required", "min", "max", "eq"]
    out = []
    for v in range(0, 4):                      # every value x every single constraint, exhaustively
        for k in kinds:
            for m in ([0] if k == "required" else range(0, 4)):
                out.append(dict(kind="validate", val=str(v), cons=[dict(k=k, n=m)]))
    for _ in range(n):                         # pairs and triples, larger values
        cs = [dict(k=k, n=rng.randint(0, 6)) for k in rng.sample(kinds, rng.randint(0, 3))]
        out.append(dict(kind="validate", val=str(rng.randint(0, 8)), cons=cs))
    # the same on a point that also says required=false: optional means "may be absent", a value that IS bound is validated
    out += [dict(c, opt=True) for c in out]
    # ... and however the value reaches the point: written in the tag, computed by a placeholder-free expression, or by an
    # expression over the placeholder (nothing is looked up for the first two: "bound" must not mean "found in the configuration")
    out += [dict(c, src=s) for c in out for s in ("lit", "expr", "phexpr")]
    return out


def modifier_cases(rng, n):
    """positional modifiers: omitempty on scalars (every value x position x constraint), dive on lists"""
    kinds = ["min", "max", "eq"]
    out = []
    om = dict(k="omitempty", n=0)
    for v in range(0, 4):
        for k in kinds + ["required"]:
            for m in ([0] if k == "required" else range(0, 4)):
                c = dict(k=k, n=m)
                out.append(dict(kind="validate", val=str(v), cons=[om, c]))
                out.append(dict(kind="validate", val=str(v), cons=[c, om]))
    dive = dict(k="dive", n=0)
    lists = [[x] for x in range(0, 4)] + [[a, b] for a in range(0, 4) for b in range(0, 4)] + [[1, 2, 3], [5, 6, 7], [3, 3, 3], [0, 4, 2]]
    for xs in lists:
        for k in kinds:
            for m in range(0, 5):
                c = dict(k=k, n=m)
                out.append(dict(kind="vslice", xs=xs, cons=[dive, c]))
                if len(xs) >= 2 and m <= 3:
                    out.append(dict(kind="vslice", xs=xs, cons=[c, dive, dict(k=k, n=(m + 1) % 4)]))     # before dive: the length; after: the elements
                    out.append(dict(kind="vslice", xs=xs, cons=[dive, om, c]))
        out.append(dict(kind="vslice", xs=xs, cons=[dict(k="min", n=len(xs))]))          # no dive: the list itself
    for ptr in (False, True):          # `required` on a nested struct member of a validated struct
        for nx in ("absent", "0", "5"):
            out.append(dict(kind="vnest", ptr=ptr, nx=nx))
    for _ in range(n):
        xs = [rng.randint(0, 6) for _ in range(rng.randint(1, 4))]
        cs = [dict(k=k, n=rng.randint(0, 4)) for k in rng.sample(kinds, rng.randint(0, 2))]
        cs += [dive] + ([om] if rng.random() < 0.3 else []) + [dict(k=k, n=rng.randint(0, 6)) for k in rng.sample(kinds, rng.randint(1, 2))]
        out.append(dict(kind="vslice", xs=xs, cons=cs))
    out += [dict(c, opt=True) for c in out if c["kind"] in ("validate", "vslice") and rng.random() < 0.5]
    return out


def struct_validate_cases(rng, n):
    kinds = ["required", "min", "max", "eq"]
    out = []
    for v in range(0, 4):
        for k in kinds:
            for m in ([0] if k == "required" else range(0, 4)):
                out.append(dict(kind="vstruct", val=str(v), cons=[dict(k=k, n=m)]))
    for _ in range(n):
        cs = [dict(k=k, n=rng.randint(0, 6)) for k in rng.sample(kinds, rng.randint(1, 3))]
        out.append(dict(kind="vstruct", val=str(rng.randint(0, 8)), cons=cs))
    return out


def missing_cases():
    """a configuration value that is missing, for every tag form x field type x required / optional - also on points that carry a
    validate argument (varg: "" none, "-" bare `validate` = struct validation, else constraints): nothing is bound, so an
    optional point stays at its zero value and never fails start-up, whatever the constraints say about zero values"""
    out = []
    for t in ("value", "prop", "prefix"):
        for ft in FTYPES:
            vargs = [""] + (["-"] if ft in ("struct", "pstruct") else ["required", "min=1"])
            for r in (True, False):
                for va in vargs:
                    out.append(dict(kind="missing", tag=t, ftype=ft, required=r, varg=va))
    return out


def random_reps(rng, n):
    """seeded representatives inside the classes whose round trip is the identity (thorough tier: magnitudes / shapes beyond the fixed ones)"""
    import string
    out = []
    safe = string.ascii_letters + " _-;:/@!?%&|~^"
    for _ in range(n):
        k = rng.randrange(6)
        if k == 0:
            s = "".join(rng.choice(safe) for _ in range(rng.randint(1, 24))).strip() or "x"
            if s.lower() in ("true", "false") or s[0] in "'\"[{#" or s.startswith("map["):
                s = "z" + s
            out.append(("plain", q(s), None))
        elif k == 1:
            out.append(("intSmall", str(rng.randint(-2 ** 53, 2 ** 53)), None))
        elif k == 2:
            x = round(rng.uniform(-1e6, 1e6), rng.randint(1, 4))
            if abs(x) >= 1e-3 and x != int(x):
                out.append(("floatFrac", repr(x), None))
        elif k == 3:
            out.append(("numCanon", q(str(rng.randint(1, 10 ** 9))), None))
        elif k == 4:
            items = ["".join(rng.choice(string.ascii_lowercase) for _ in range(rng.randint(1, 6))) for _ in range(rng.randint(1, 5))]
            out.append(("listStr", json.dumps(items), None))
        else:
            keys = rng.sample(["a", "b", "c", "d"], rng.randint(1, 3))
            out.append(("mapFlat", "{" + ", ".join("%s: %s" % (kk, rng.choice(["x", "yy", "zed"])) for kk in keys) + "}", None))
    cases = []
    for cls, y, lit in out:
        for ft in FTYPES:
            cases.append(dict(kind="twin", **{"class": cls}, ftype=ft, yaml="k: %s\n" % y, lit=lit or "", preset=rng.random() < 0.5))
    return cases


def alias_cases():
    """a key bound by two components, the first of which writes through its bound value (generic reference-typed fields)"""
    out = []
    for ft, docs in (("map", ['{a: 1, b: x}', '{a: {b: [1, 2]}, c: "t"}']), ("anylist", ['[1, 2]', '["a", "b", "c"]', '[{a: 1}]']),
                     ("any", ['{a: 1, b: x}', '[1, 2]'])):
        for d in docs:
            out.append(dict(kind="alias", ftype=ft, yaml="k: %s\n" % d))
    return out
