"""Common machinery for the go-kid/ioc TLA+ verification checks (stdlib only).

Verdict policy (DESIGN.md 4.3):
  exit 0  property held on everything explored (KNOWN-FINDING lines allowed)
  exit 1  'VIOLATION property=<id> replay=<path>' -- only from real-code behaviour
  exit 2  infrastructure trouble (build failure, TLC crash/timeout, dead harness)
"""
import json, os, re, shutil, subprocess, sys, time, hashlib, random

VERIF = os.path.dirname(os.path.abspath(__file__))
REPO = os.environ.get("VERIF_REPO", "/repo")
SPEC = os.path.join(VERIF, "spec")
HARNESS = os.path.join(VERIF, "harness")
EVID = os.path.join(VERIF, "evidence")
REPLAYS = os.path.join(VERIF, "replays")
TLA_CP = "/opt/veriftools/tla/tla2tools.jar:/opt/veriftools/tla/CommunityModules-deps.jar"
NCPU = os.cpu_count() or 4

GOENV = dict(GOFLAGS="-mod=mod", GOPROXY="off", GOSUMDB="off", GOTOOLCHAIN="local")


class Infra(Exception):
    """Infrastructure failure: exit 2, never a violation."""


def log(*a):
    print(*a, flush=True)


def seed_from_env():
    try:
        return int(os.environ.get("VERIF_SEED", "1"))
    except ValueError:
        return 1


def scratch_dir(tag):
    base = "/dev/shm" if os.path.isdir("/dev/shm") and os.access("/dev/shm", os.W_OK) else os.path.join(VERIF, "run")
    d = os.path.join(base, "verif-%s-%d" % (tag, os.getpid()))
    shutil.rmtree(d, ignore_errors=True)
    os.makedirs(d)
    return d


def rm(d):
    shutil.rmtree(d, ignore_errors=True)


# --------------------------------------------------------------------- Go harness
def build_harness(outdir, race=False):
    """Build the harness binary against /repo's *current working tree* with -tags verif."""
    env = dict(os.environ)
    env.update(GOENV)
    src = HARNESS
    # the harness module resolves github.com/go-kid/ioc through a replace directive
    gomod = open(os.path.join(src, "go.mod.tmpl")).read().replace("@REPO@", REPO)
    work = os.path.join(outdir, "hsrc")
    shutil.rmtree(work, ignore_errors=True)
    shutil.copytree(src, work, ignore=shutil.ignore_patterns("go.mod.tmpl"))
    with open(os.path.join(work, "go.mod"), "w") as f:
        f.write(gomod)
    shutil.copy(os.path.join(REPO, "go.sum"), os.path.join(work, "go.sum"))
    out = os.path.join(outdir, "harness-race" if race else "harness")
    cmd = ["go", "build", "-tags", "verif", "-o", out]
    if race:
        cmd.insert(2, "-race")
    if os.environ.get("VERIF_COVER") == "1":   # tools/code_coverage.sh: which library code the conformance runs execute
        cmd[2:2] = ["-cover", "-coverpkg=all"]
    cmd.append(".")
    t0 = time.time()
    p = subprocess.run(cmd, cwd=work, env=env, stdout=subprocess.PIPE, stderr=subprocess.STDOUT, text=True)
    if p.returncode != 0:
        raise Infra("harness build failed (does /repo compile with -tags verif?):\n" + p.stdout[-4000:])
    log("[build] harness%s built from %s in %.1fs" % (" (-race)" if race else "", REPO, time.time() - t0))
    return out


def run_harness(binary, args, cwd, timeout=600, stdin=None, env_extra=None):
    env = dict(os.environ)
    if env_extra:
        env.update(env_extra)
    try:
        p = subprocess.run([binary] + args, cwd=cwd, env=env, input=stdin, stdout=subprocess.PIPE,
                           stderr=subprocess.PIPE, text=True, timeout=timeout)
    except subprocess.TimeoutExpired:
        raise Infra("harness timed out: %s" % " ".join(args))
    return p


# --------------------------------------------------------------------- TLC
JVM_SMALL = ["-Xss256m", "-Xmx2g", "-Xms256m", "-XX:+UseParallelGC", "-XX:ParallelGCThreads=2", "-XX:CICompilerCount=2",
             "-XX:TieredStopAtLevel=1"]
JVM_BIG = ["-Xss64m", "-XX:+UseParallelGC", "-Xmx12g"]


class TLCResult:
    def __init__(self):
        self.rc = None
        self.out = ""
        self.generated = 0
        self.distinct = 0
        self.depth = 0
        self.violated = None     # name of violated invariant / property, or None
        self.kind = None         # 'invariant' | 'action' | 'temporal' | 'postcondition' | 'deadlock' | 'assert'
        self.ok = False
        self.error_text = ""
        self.wall = 0.0
        self.rejected_after = None

    def __repr__(self):
        return "TLC(rc=%s ok=%s gen=%d distinct=%d violated=%s kind=%s)" % (
            self.rc, self.ok, self.generated, self.distinct, self.violated, self.kind)


def run_tlc(workdir, module, cfg, workers=1, timeout=600, jvm=None, extra=None, dfs=False, simulate=None):
    """Run TLC in workdir (module and cfg must already be there). Returns TLCResult.
    Raises Infra on crash / timeout / parse errors."""
    jvm = list(jvm or JVM_SMALL)
    if dfs:
        jvm.append("-Dtlc2.tool.queue.IStateQueue=StateDeque")
    meta = os.path.join(workdir, "meta-%s-%s" % (module, os.path.basename(cfg)))
    cmd = ["java"] + jvm + ["-cp", TLA_CP, "tlc2.TLC", "-workers", str(workers), "-metadir", meta,
                            "-config", cfg, "-noGenerateSpecTE"]
    if simulate:
        cmd += ["-simulate", simulate]
    if extra:
        cmd += extra
    cmd.append(module)
    t0 = time.time()
    try:
        p = subprocess.run(cmd, cwd=workdir, stdout=subprocess.PIPE, stderr=subprocess.STDOUT, text=True,
                           timeout=timeout)
    except subprocess.TimeoutExpired:
        subprocess.run(["pkill", "-f", meta], stdout=subprocess.DEVNULL, stderr=subprocess.DEVNULL)
        raise Infra("TLC timed out after %ds on %s/%s" % (timeout, module, cfg))
    r = TLCResult()
    r.rc, r.out, r.wall = p.returncode, p.stdout, time.time() - t0
    shutil.rmtree(meta, ignore_errors=True)
    m = None
    for m in re.finditer(r"(\d+) states generated, (\d+) distinct states found", r.out):
        pass
    if m:
        r.generated, r.distinct = int(m.group(1)), int(m.group(2))
    m = re.search(r"The depth of the complete state graph search is (\d+)", r.out)
    if m:
        r.depth = int(m.group(1))
    if "Model checking completed. No error has been found." in r.out or \
            (simulate and r.rc == 0):
        r.ok = True
        return r
    m = re.search(r"Invariant (\S+) is violated", r.out)
    if m:
        r.violated, r.kind = m.group(1), "invariant"
    if not r.violated:
        m = re.search(r"Action property (\S+) is violated", r.out)
        if m:
            r.violated, r.kind = m.group(1), "action"
    if not r.violated:
        m = re.search(r"Temporal properties were violated", r.out)
        if m:
            r.violated, r.kind = "temporal", "temporal"
    if not r.violated and re.search(r"Postcondition \S+ .*is false", r.out):
        r.violated, r.kind = "POSTCONDITION", "postcondition"
        m = re.search(r"REJECTED_AFTER_LINE\", (\d+)", r.out)
        r.rejected_after = int(m.group(1)) if m else None
    if not r.violated and "Deadlock reached" in r.out:
        r.violated, r.kind = "deadlock", "deadlock"
    if not r.violated:
        m = re.search(r"The first argument of Assert evaluated to FALSE; the second argument was:\s*\n?\"?([^\n\"]*)", r.out)
        if m:
            r.violated, r.kind = m.group(1).strip(), "assert"
    if not r.violated:
        raise Infra("TLC failed without a recognised verdict on %s/%s (rc=%s):\n%s" % (module, cfg, r.rc, r.out[-3000:]))
    i = r.out.find("Error:")
    r.error_text = r.out[i:i + 6000] if i >= 0 else r.out[-3000:]
    return r


def stage_specs(workdir, names):
    """Copy spec modules (and anything else under spec/) needed for a run into workdir."""
    for n in names:
        shutil.copy(os.path.join(SPEC, n), os.path.join(workdir, n))


def write_cfg(path, constants=None, spec="Spec", invariants=(), properties=(), postcondition=None,
              constraint=None, view=None, init=None, next_=None, deadlock=False, extra_lines=()):
    lines = []
    if constants:
        lines.append("CONSTANTS")
        for k, v in constants.items():
            lines.append("  %s" % (("%s = %s" % (k, v)) if not str(v).startswith("<-") else "%s %s" % (k, v)))
    if init and next_:
        lines += ["INIT %s" % init, "NEXT %s" % next_]
    else:
        lines.append("SPECIFICATION %s" % spec)
    if invariants:
        lines.append("INVARIANTS " + " ".join(invariants))
    for p in properties:
        lines.append("PROPERTY %s" % p)
    if postcondition:
        lines.append("POSTCONDITION %s" % postcondition)
    if constraint:
        lines.append("CONSTRAINT %s" % constraint)
    if view:
        lines.append("VIEW %s" % view)
    lines.append("CHECK_DEADLOCK %s" % ("TRUE" if deadlock else "FALSE"))
    lines += list(extra_lines)
    with open(path, "w") as f:
        f.write("\n".join(lines) + "\n")


# --------------------------------------------------------------------- known findings
def load_known():
    path = os.path.join(VERIF, "known_findings.jsonl")
    out = []
    if os.path.exists(path):
        for line in open(path):
            line = line.strip()
            if line and not line.startswith("#"):
                out.append(json.loads(line))
    return out


def known_for(prop):
    return [k for k in load_known() if k.get("kind") == "finding" and k.get("property") == prop]


# --------------------------------------------------------------------- evidence / verdicts
class Run:
    """One check run: collects coverage, violations, writes evidence, decides the exit code."""

    def __init__(self, prop, tier, level="model_checking"):
        self.prop, self.tier, self.level = prop, tier, level
        self.write_evidence = True      # a --replay run does not overwrite the evidence of the last full run
        self.seed = seed_from_env()
        self.t0 = time.time()
        self.cov = dict(states=0, transitions=0, traces_validated_against_impl=0, samples=[],
                        evaluations=0, distinct_nontrivial=0, rule="", exhaustive=False,
                        model_runs=[], model_binding="conforms")
        self.assumptions = []
        self.violations = []     # (what, replay_path)
        self.known_hits = []
        self._distinct = set()
        self.rng = random.Random(self.seed)

    def add_model_run(self, name, res, scenarios=None, note=None):
        self.cov["states"] += res.distinct
        self.cov["transitions"] += res.generated
        e = dict(name=name, distinct=res.distinct, generated=res.generated, depth=res.depth,
                 wall_s=round(res.wall, 1), ok=res.ok)
        if scenarios is not None:
            e["scenarios"] = scenarios
        if note:
            e["note"] = note
        self.cov["model_runs"].append(e)

    def count_case(self, key, nontrivial=True):
        self.cov["evaluations"] += 1
        if nontrivial:
            h = hashlib.sha1(json.dumps(key, sort_keys=True).encode()).hexdigest()
            self._distinct.add(h)

    def sample(self, s, cap=6):
        if len(self.cov["samples"]) < cap:
            self.cov["samples"].append(s)

    def violation(self, what, replay_obj):
        os.makedirs(REPLAYS, exist_ok=True)
        h = hashlib.sha1(json.dumps(replay_obj, sort_keys=True, default=str).encode()).hexdigest()[:12]
        path = os.path.join(REPLAYS, "%s-%s.json" % (self.prop, h))
        with open(path, "w") as f:
            json.dump(dict(property=self.prop, what=what, replay=replay_obj), f, indent=1, default=str)
        self.violations.append((what, path))
        return path

    def known(self, finding, what):
        self.known_hits.append((finding, what))

    def finish(self):
        if self.write_evidence and not self.cov["model_runs"]:
            # every full run has an exhaustive TLC part: a run without one lost it somewhere (dead thread, skipped phase)
            raise Infra("no model run was recorded for %s: the exhaustive part did not run" % self.prop)
        self.cov["distinct_nontrivial"] = max(self.cov.get("distinct_nontrivial", 0), len(self._distinct))
        wall = time.time() - self.t0
        ev = dict(property_id=self.prop, tier=self.tier, seed=self.seed, level=self.level,
                  coverage=self.cov, assumptions=self.assumptions, wall_s=round(wall, 2),
                  violations=len(self.violations))
        if self.known_hits:
            ev["coverage"]["known_findings_observed"] = sorted({k["id"] for k, _ in self.known_hits})
        if self.write_evidence and os.environ.get("VERIF_NO_EVIDENCE") != "1":      # (tools evaluating seeded changes set VERIF_NO_EVIDENCE=1)
            os.makedirs(EVID, exist_ok=True)
            with open(os.path.join(EVID, "%s.json" % self.prop), "w") as f:
                json.dump(ev, f, indent=1, default=str)
        seen = set()
        for k, what in self.known_hits:
            if k["id"] in seen:
                continue
            seen.add(k["id"])
            log("KNOWN-FINDING: property=%s %s (%s)" % (self.prop, k["what"], k["id"]))
        if self.violations:
            for what, path in self.violations[:5]:
                log("  violation: %s" % what)
            log("VIOLATION property=%s replay=%s" % (self.prop, self.violations[0][1]))
            return 1
        log("OK property=%s tier=%s states=%d traces=%d evals=%d distinct=%d wall=%.1fs" % (
            self.prop, self.tier, self.cov["states"], self.cov["traces_validated_against_impl"],
            self.cov["evaluations"], self.cov["distinct_nontrivial"], wall))
        return 0


def main_wrapper(fn):
    try:
        rc = fn()
    except Infra as e:
        log("INFRA: %s" % e)
        sys.exit(2)
    sys.exit(rc)


def write_ndjson(path, records):
    with open(path, "w") as f:
        for r in records:
            f.write(json.dumps(r, separators=(",", ":")) + "\n")


def read_ndjson(path):
    out = []
    with open(path) as f:
        for line in f:
            line = line.strip()
            if line:
                out.append(json.loads(line))
    return out


def parallel(jobs, nproc):
    """jobs: list of zero-arg callables run in a thread pool (each spawns a subprocess)."""
    from concurrent.futures import ThreadPoolExecutor
    with ThreadPoolExecutor(max_workers=nproc) as ex:
        futs = [ex.submit(j) for j in jobs]
        return [f.result() for f in futs]
