"""Suite phase (C04, also run for C09's composite): the repository's OWN tests, executed from a scratch copy of the current
tree with a tracing singleton registry slipped under every App (suitetrace/trace.go.txt, through app.Settings and the hook
factory.NewWithRegistries).  Every App start of every test yields the history of calls the real factory issued to the real
registry; each history is validated against spec/Cache.tla (TraceCache: conformance) and the C04 invariants are evaluated on
the real table snapshots (MonitorSpec).  This is the 'validate the existing tests' traces' direction: the tests' own
assertions stay what they are, the specification looks at every intermediate state they pass through."""
import os, re, json, glob, shutil, subprocess
import vlib, engine_lib as el

CACHE_INV = ["C04_PublishedClean", "C04_EarlyOnce", "C04_OneEarlyRef", "C04_CleanFailure", "C04_MarkedWhileOpen"]
STARTS = re.compile(r"NewApp\(|ioc\.Run\(|RunTest\(|RunErrorTest\(")


def prepare(sd):
    repo = os.path.join(sd, "repo")
    shutil.copytree(vlib.REPO, repo, ignore=shutil.ignore_patterns(".git"))
    os.makedirs(os.path.join(repo, "verifsuitetrace"))
    shutil.copy(os.path.join(vlib.VERIF, "suitetrace", "trace.go.txt"), os.path.join(repo, "verifsuitetrace", "trace.go"))
    dirs = []
    for root, _, files in os.walk(repo):
        tests = [f for f in files if f.endswith("_test.go")]
        if not tests or root.endswith("verifsuitetrace"):
            continue
        src = "".join(open(os.path.join(root, f), errors="replace").read() for f in tests)
        if not STARTS.search(src):
            continue
        pkgs = set(re.findall(r"(?m)^package\s+(\w+)", src))
        nontest = [f for f in files if f.endswith(".go") and not f.endswith("_test.go")]
        # in-package tests of library packages cannot import the tracer (import cycle): external test packages and
        # test-only directories can
        cands = [p for p in pkgs if p.endswith("_test")] or ([] if nontest and root.count(os.sep) - repo.count(os.sep) <= 1 and
                                                             os.path.basename(root) in ("app",) else sorted(pkgs))
        if not cands:
            continue
        with open(os.path.join(root, "zz_verif_suitetrace_test.go"), "w") as f:
            f.write("//go:build verif\n\npackage %s\n\nimport \"github.com/go-kid/ioc/verifsuitetrace\"\n\n"
                    "func init() { verifsuitetrace.Install() }\n" % cands[0])
        dirs.append("./" + os.path.relpath(root, repo))
    return repo, sorted(dirs)


def collect(tdir):
    """-> list of histories: (meta, [event lines as dicts]) with names numbered per history"""
    hs = []
    for fn in sorted(glob.glob(os.path.join(tdir, "*.ndjson"))):
        evs = [json.loads(l) for l in open(fn) if l.strip()]
        if len(evs) > 1:
            hs.append((evs[0], evs[1:]))
    return hs


def suite_phase(run, tier, workdir):
    sd = os.path.join(workdir, "suite")
    os.makedirs(sd)
    repo, dirs = prepare(sd)
    tdir = os.path.join(sd, "traces")
    os.makedirs(tdir)
    env = dict(os.environ)
    env.update(vlib.GOENV)
    env["VERIF_SUITE_TRACE"] = tdir
    p = subprocess.run(["go", "test", "-trimpath", "-tags", "verif", "-vet=off", "-count=1"] + dirs, cwd=repo, env=env,
                       stdout=subprocess.PIPE, stderr=subprocess.STDOUT, text=True, timeout=1500)
    failed = [l for l in p.stdout.splitlines() if l.startswith(("FAIL", "--- FAIL", "panic:"))]
    if "[build failed]" in p.stdout or "[setup failed]" in p.stdout:
        raise vlib.Infra("suite phase: the repository's tests do not build with the tracer:\n" + p.stdout[-3000:])
    hs = collect(tdir)
    if len(hs) < 20:
        raise vlib.Infra("suite phase: only %d App starts were recorded (tracer not installed?)\n%s" % (len(hs), p.stdout[-2000:]))
    nmax = max(len(e["st"]["L1"]) for _, evs in hs for e in evs)
    lines, groups = [], []
    for meta, evs in hs:
        g = [json.dumps(dict(op="hist", test=meta.get("test", ""), file=os.path.basename(meta.get("pkg", "")))) + "\n"]
        for e in evs:
            st = e["st"]
            st["L1"] += ["none"] * (nmax - len(st["L1"]))
            st["L2"] += ["none"] * (nmax - len(st["L2"]))
            for k, d in (("early", False), ("fok", False), ("ok", False), ("res", "none"), ("err", False)):
                e.setdefault(k, d)
            g.append(json.dumps(e) + "\n")
        groups.append(g)
    vlib.stage_specs(sd, ["Cache.tla", "TraceCache.tla"])
    tc = dict(Names="{%s}" % ", ".join(str(i) for i in range(1, nmax + 1)), MaxOps=100000, CleanupOnError="TRUE")
    stm, fm = el.validate_groups(sd, groups, "TraceCache", tc, CACHE_INV, ["M_NoHalfBuilt", "M_PublishedStable", "M_FailedLookupChangesNothing"], "smon", spec="MonitorSpec")
    stc, fc = el.validate_groups(sd, groups, "TraceCache", tc, CACHE_INV, [], "sconf")
    run.cov["states"] += stm["states"] + stc["states"]
    run.cov["transitions"] += stm["generated"] + stc["generated"]
    run.cov["traces_validated_against_impl"] += len(groups)
    run.cov["suite_app_starts_validated"] = len(groups)
    run.cov["suite_events"] = sum(len(g) - 1 for g in groups)
    run.cov["suite_tests_failing_under_tracer"] = failed[:10]
    drift = 0
    for layer, fails in (("monitor", fm), ("conformance", fc)):
        for f in fails:
            g = groups[f["group"]]
            head = json.loads(g[0])
            ops = [json.loads(x) for x in g[1:]]
            if f["kind"] == "postcondition":
                if layer == "monitor":
                    raise vlib.Infra("suite monitor could not consume the history of %s: %s" % (head.get("test"), f["tlc"][:400]))
                drift += 1
                vlib.log("[suite] conformance: history of %s not a behaviour of Cache.tla after call %s" % (head.get("test"), f.get("line")))
                continue
            what = "registry history of the repository's own test %s: %s %s violated at call %d" % (head.get("test"), f["kind"], f["name"], f["line"] - 1)
            run.violation(what, dict(family="suite", kind="suite", test=head.get("test"), operator=f["name"], call_index=f["line"] - 1,
                                     history=[{k: v for k, v in o.items() if k != "st"} for o in ops][:400], tlc=f["tlc"][:2000]))
    if groups:
        g = groups[len(groups) // 2]
        run.sample(dict(suite_history_of=json.loads(g[0]).get("test"), calls=[{k: v for k, v in json.loads(x).items() if k != "st"} for x in g[1:13]]))
    for g in groups:
        run.count_case([{k: v for k, v in json.loads(x).items() if k not in ("st",)} for x in g[1:]], len(g) > 3)
    shutil.rmtree(repo, ignore_errors=True)
    return drift
