"""Scenario generation and trace validation for the engine family (C01-C05, C09, and the
engine parts of C04/C10)."""
import json, os, random, itertools, shutil
import vlib

WRAPS = ["none", "early", "after", "bothDiff", "bothSame", "spring"]
FAILS = ["none", "resolve", "before", "aps", "init", "after", "early"]


def scenario(n, single, slice_, lazy=(), wrap=None, fail=None, self_opt=None, slice_opt=None, order=None,
             reg_order=None, lookups=(), seed=0, sid="", sparse=False, procs=(), mode=None, quiet=False, runners=(), all_=False, ilook=None):
    return dict(id=sid, n=n, single=[sorted(x) for x in single], selfOpt=list(self_opt or [False] * n),
                slice=[sorted(x) for x in slice_], sliceOpt=list(slice_opt or [False] * n), lazy=sorted(lazy),
                wrap=list(wrap or ["none"] * n), fail=list(fail or ["none"] * n),
                order=list(order or range(1, n + 1)), regOrder=list(reg_order or range(1, n + 1)),
                lookups=list(lookups), seed=seed, sparse=sparse, procs=list(procs), mode=list(mode or ["normal"] * n), quiet=quiet, runners=sorted(runners),
                rorder=[x for x in (order or range(1, n + 1)) if x in set(runners)], all=all_,
                ilook=list(ilook or [0] * n), extra=False, plainRig=False, late=[False] * n, prewire=[[] for _ in range(n)], once=[False] * n, unfit=False)      # ilook[n-1] = t: the component's Init() looks component t up by name


def rand_scenario(rng, n, p_edge=0.35, p_slice=0.3, wraps=False, fails=False, lazies=False, lookups=0,
                  opt=True, max_single=8, sid="", procs=False, modes=False, runners=False, ilooks=0.1):
    single, slc = [], []
    for h in range(1, n + 1):
        s, l = set(), set()
        for t in range(1, n + 1):
            if rng.random() < p_edge:
                if rng.random() < p_slice:
                    l.add(t)
                elif len(s) < max_single:
                    s.add(t)
        single.append(s)
        slc.append(l)
    wrap = ["none"] * n
    fail = ["none"] * n
    if wraps:
        for i in range(n):
            if rng.random() < wraps:
                wrap[i] = rng.choice(WRAPS[1:])
    if fails:
        for i in range(n):
            if rng.random() < fails:
                fail[i] = rng.choice(FAILS[1:])
    lazy = [i for i in range(1, n + 1) if lazies and rng.random() < lazies]
    self_opt = [opt and rng.random() < 0.5 for _ in range(n)]
    slice_opt = [opt and rng.random() < 0.5 for _ in range(n)]
    order = list(range(1, n + 1))
    rng.shuffle(order)
    reg = list(range(1, n + 1))
    rng.shuffle(reg)
    lk = [rng.randint(1, n) for _ in range(rng.randint(0, lookups))] if lookups else []
    pr = [rng.random() < 0.5 for _ in range(rng.randint(0, 2))] if procs else []
    md = ["normal"] * n
    if modes:
        for i in range(n):
            if wrap[i] == "none" and rng.random() < modes:
                md[i] = rng.choice(["beforeNil", "shortcut"])
    rn = []
    if runners:
        rn = [i for i in range(1, n + 1) if wrap[i - 1] == "none" and md[i - 1] == "normal" and rng.random() < runners]
        for i in rn:
            if fails and rng.random() < 0.25:
                fail[i - 1] = "run"
    il = [0] * n
    if ilooks and n <= 8:
        for i in range(n):
            if rng.random() < ilooks:
                il[i] = rng.choice(lazy) if lazy and rng.random() < 0.6 else rng.randint(1, n)
    sc = scenario(n, single, slc, lazy, wrap, fail, self_opt, slice_opt, order, reg, lk,
                  seed=rng.randint(0, 2 ** 31), sid=sid, procs=pr, mode=md, quiet=rng.random() < 0.3, runners=rn, ilook=il)
    # with no substitution at early-reference time the harness processor may be a plain one: then nothing in the application
    # implements GetEarlyBeanReference (a substitution AFTER initialisation must still be noticed in a cycle)
    sc["plainRig"] = all(w in ("none", "after") for w in wrap) and "early" not in fail and rng.random() < 0.5
    sc["extra"] = rng.random() < 0.25      # the second public by-type collector registered as well: candidates arrive twice (fix F13 keeps the first)
    # a holder's slice point served by a user-written collector that runs after further matching (custom tag, optional): the
    # holder itself is among the candidates when the scenario lists it, only Property.Inject's own filter keeps it out
    # substituted components may also be wired through pointer-typed points: the substitute (another type) does not fit the field
    sc["unfit"] = any(w != "none" for w in wrap) and rng.random() < 0.4
    # single-valued fields of EAGER holders the user filled by hand before the start (with the registered raw object)
    if rng.random() < 0.3:
        for h in range(n):
            if (h + 1) not in lazy:
                sc["prewire"][h] = sorted(t for t in single[h] if t != h + 1 and rng.random() < 0.6)
    if rng.random() < 0.3:
        for h in range(n):
            if slc[h] and rng.random() < 0.6:
                sc["late"][h] = True
                sc["sliceOpt"][h] = True
    return sc


def shaped(rng, n, shape, **kw):
    """chains, rings, diamonds, fan-in through slices, overlapping cycles; large n => sparse snapshots"""
    single = [set() for _ in range(n)]
    slc = [set() for _ in range(n)]
    perm = list(range(1, n + 1))
    rng.shuffle(perm)     # position of the structure relative to the creation (name) order
    def edge(a, b, sl=False):
        (slc if sl else single)[perm[a] - 1].add(perm[b])
    if shape == "chain":
        for i in range(n - 1):
            edge(i, i + 1, rng.random() < 0.2)
    elif shape == "ring":
        for i in range(n):
            edge(i, (i + 1) % n, rng.random() < 0.2)
    elif shape == "rings2":          # two overlapping cycles sharing a segment
        k = max(2, n // 2)
        for i in range(k):
            edge(i, (i + 1) % k)
        for i in range(k - 1, n):
            edge(i, i + 1 if i + 1 < n else 0)
    elif shape == "diamond":
        for i in range(1, n - 1):
            edge(0, i)
            edge(i, n - 1)
    elif shape == "fanin":
        for i in range(1, n):
            edge(0, i, True)
            if rng.random() < 0.5:
                edge(i, 0)
    elif shape == "cycletail":       # a cycle with an acyclic tail hanging off it
        k = max(2, n // 2)
        for i in range(k):
            edge(i, (i + 1) % k)
        for i in range(k, n):
            edge(rng.randrange(0, i), i)
    elif shape == "dense":
        for a in range(n):
            for b in range(n):
                if a != b and rng.random() < min(0.5, 6.0 / n) and len(single[perm[a] - 1]) < 8:
                    edge(a, b, rng.random() < 0.3)
    for h in range(n):
        while len(single[h]) > 8:
            single[h].pop()
    order = list(range(1, n + 1)); rng.shuffle(order)
    reg = list(range(1, n + 1)); rng.shuffle(reg)
    return scenario(n, single, slc, order=order, reg_order=reg, seed=rng.randint(0, 2 ** 31), sparse=n > 8, quiet=rng.random() < 0.3, **kw)


def tla_set(xs):
    return "{" + ", ".join(str(x) for x in xs) + "}"


def write_scenarios(path, scs):
    vlib.write_ndjson(path, scs)


def run_engine(binary, workdir, scs, name="eng", timeout=900):
    inp = os.path.join(workdir, name + ".scen.ndjson")
    out = os.path.join(workdir, name + ".trace.ndjson")
    write_scenarios(inp, scs)
    p = vlib.run_harness(binary, ["engine", "-in", inp, "-out", out], cwd=workdir, timeout=timeout)
    if p.returncode != 0:
        raise vlib.Infra("engine harness failed rc=%d: %s" % (p.returncode, p.stderr[-2000:]))
    return out


def split_trace(path, marker='"ev":"scenario"'):
    """-> list of groups; each group = raw ndjson lines, the first one being the header line"""
    groups = []
    with open(path) as f:
        for line in f:
            if marker in line[:60]:
                groups.append([line])
            else:
                groups[-1].append(line)
    return groups


def scenario_of(group):
    return json.loads(group[0])["sc"]


# ------------------------------------------------------------------ trace validation
import re


def _last_state_no(out):
    nums = [int(x) for x in re.findall(r"^State (\d+):", out, flags=re.M)]
    return max(nums) if nums else None


def tlc_trace(workdir, module, trace_file, consts, invariants, properties, tag, timeout=900, spec="TraceSpec"):
    cfg = "%s.cfg" % tag
    c = dict(consts)
    c["TraceFile"] = '"%s"' % os.path.basename(trace_file)
    vlib.write_cfg(os.path.join(workdir, cfg), constants=c, spec=spec, invariants=invariants,
                   properties=properties, postcondition="Accepted")
    return vlib.run_tlc(workdir, module, cfg, workers=1, timeout=timeout)


def validate_groups(workdir, groups, module, consts, invariants, properties, tag, max_failures=25, timeout=900, spec="TraceSpec"):
    """Validate scenario groups (lists of raw ndjson lines) with a trace spec.
    Returns (stats, failures) where failures = [dict(group_index, kind, name, line_in_group, tlc)]
    Each failing group is isolated and re-validated alone so the report is about one scenario."""
    stats = dict(states=0, generated=0, runs=0, events=0, groups=len(groups))
    failures = []
    start = 0
    while start < len(groups) and len(failures) < max_failures:
        path = os.path.join(workdir, "%s.part.ndjson" % tag)
        with open(path, "w") as f:
            for g in groups[start:]:
                f.writelines(g)
        r = tlc_trace(workdir, module, path, consts, invariants, properties, tag, timeout=timeout, spec=spec)
        stats["runs"] += 1
        stats["states"] += r.distinct
        stats["generated"] += r.generated
        if r.ok:
            stats["events"] += sum(len(g) for g in groups[start:])
            break
        # locate the failing line
        if r.kind == "postcondition":
            line = (r.rejected_after or 0) + 1
        else:
            k = _last_state_no(r.out)
            line = k if k else 1
        acc, gi = 0, start
        for gi in range(start, len(groups)):
            if acc + len(groups[gi]) >= line:
                break
            acc += len(groups[gi])
        stats["events"] += acc
        # isolate
        alone = os.path.join(workdir, "%s.alone.ndjson" % tag)
        with open(alone, "w") as f:
            f.writelines(groups[gi])
        r1 = tlc_trace(workdir, module, alone, consts, invariants, properties, tag + "a", timeout=timeout, spec=spec)
        stats["runs"] += 1
        if r1.ok:
            raise vlib.Infra("group %d fails in context but passes alone (%s %s)" % (gi, r.kind, r.violated))
        lig = (r1.rejected_after or 0) + 1 if r1.kind == "postcondition" else (_last_state_no(r1.out) or 1)
        failures.append(dict(group=gi, kind=r1.kind, name=r1.violated, line=lig, tlc=r1.error_text[:4000]))
        start = gi + 1
    return stats, failures
