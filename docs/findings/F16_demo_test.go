package f16

// Demonstration of the recorded finding F16 (C03 / C04) against the unmodified container:
// a published survivor of a failed creation attempt keeps the failed attempt's version of its cycle partner.
// Place under <repo>/unittest/f16/ and run: go test -vet=off -count=1 -v ./unittest/f16/

import (
	"errors"
	"testing"

	"github.com/go-kid/ioc/app"
	"github.com/go-kid/ioc/container/processors"
	"github.com/go-kid/ioc/syslog"
)

type Greeter interface{ Hello() string }

type X struct {
	Y     *Y `wire:""`
	tries int
}

func (*X) LazyInit()       {}
func (*X) Naming() string  { return "x" }
func (x *X) Hello() string { return "x" }
func (x *X) Init() error {
	x.tries++
	if x.tries == 1 {
		return errors.New("transient failure")
	}
	return nil
}

type Y struct {
	X Greeter `wire:"x"`
}

func (*Y) LazyInit()      {}
func (*Y) Naming() string { return "y" }

type proxy struct{ Greeter }

// wraps x after initialisation
type wrapper struct {
	processors.DefaultInstantiationAwareComponentPostProcessor
}

func (*wrapper) PostProcessAfterInitialization(c any, name string) (any, error) {
	if name == "x" {
		return &proxy{c.(Greeter)}, nil
	}
	return c, nil
}

func TestSurvivorKeepsFailedVersion(t *testing.T) {
	x, y := &X{}, &Y{}
	a := app.NewApp()
	if err := a.Run(app.LogLevel(syslog.LvPanic), app.SetComponents(x, y, &wrapper{})); err != nil {
		t.Fatal(err)
	}
	if _, err := a.GetComponentByName("x"); err == nil {
		t.Fatal("first attempt should fail")
	}
	got, err := a.GetComponentByName("x")
	if err != nil {
		t.Skipf("retry refused (that would be fine): %v", err)
	}
	if any(y.X) != got {
		t.Fatalf("mixed versions after a successful retry: y holds %T, lookup returns %T", y.X, got)
	}
}
