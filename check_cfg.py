"""Checks for C15 (configuration sources merge in loader order) and C16 (placeholder resolution)."""
import json, os, random, threading
import vlib, engine_lib as el, cfg_lib as cl, ph_lib as pl

PATHS = '{"a", "b", "c.x", "c.y"}'


def run_c15(run, tier, wd, binary, replay):
    notes = []
    def mc():
        md = os.path.join(wd, "mc")
        os.makedirs(md)
        vlib.stage_specs(md, ["Ordering.tla", "Config.tla", "MCConfig.tla"])
        mo = 3          # (4 options over 50 option records exceed TLC's set-size limit; thorough deepens the real runs instead)
        fams = [("built-in loader kinds, variadic calls, re-initialisation", dict(AddLKs="<- LKBuiltin", SetLKs="<- LKBuiltin", Joins="<- JoinBoth", KeySets="<- KS3")),
                ("user-written ordered / priority loaders next to files and raw loaders", dict(AddLKs="<- LKOrdered", SetLKs="<- NoLK", Joins="<- JoinNo", KeySets="<- KS2"))]
        for i, (what, extra) in enumerate(fams):
            vlib.write_cfg(os.path.join(md, "c%d.cfg" % i), constants=dict(Scenarios="{}", Paths=PATHS, FixF5="TRUE", MaxOpts=mo, **extra),
                           init="MCInit", next_="Next", invariants=["C15_AddKeeps", "C15_Fold", "C15_SingleSupplierVisible"],
                           properties=["C15_AddMonotone"])
            r = vlib.run_tlc(md, "MCConfig", "c%d.cfg" % i, workers=8, timeout=3000, jvm=vlib.JVM_BIG)
            run.add_model_run("Config: every option sequence of <= %d options x documents, %s" % (mo, what), r)
            if not r.ok:
                notes.append(r)
    rng = random.Random(run.seed * 7 + 15)
    if replay:
        scs = [json.load(open(replay))["replay"]["scenario"]]
    else:
        scs = [dict(id="c%d" % i, opts=o) for i, o in enumerate(cl.all_sequences(2, cl.KEYSETS[:3]))]
        # the same two-option sequences with an Initialize between the options (a shared Configure started twice)
        scs += [dict(id="i%d" % i, opts=[sc["opts"][0], dict(kind="init", lk="none", keys=[], val=0, join=False), sc["opts"][1]])
                for i, sc in enumerate(list(scs)) if len(sc["opts"]) == 2]
        # one variadic call SetConfigLoader(l1, l2) / AddConfigLoader(l1, l2) over every pair of loader kinds, alone and after a first start
        i = 0
        for k0 in ("set", "add"):
            for lk1 in ("raw", "args", "file"):
                for lk2 in ("raw", "args", "file"):
                    for ks1, ks2 in ((["a", "b"], ["a"]), (["a"], ["a", "b"])):
                        pair = [dict(kind=k0, lk=lk1, keys=ks1, val=1, join=False), dict(kind="add", lk=lk2, keys=ks2, val=2, join=True)]
                        scs.append(dict(id="v%d" % i, opts=pair))
                        scs.append(dict(id="w%d" % i, opts=[dict(kind="add", lk="raw", keys=["a", "c.x"], val=3, join=False),
                                                            dict(kind="init", lk="none", keys=[], val=0, join=False)] + pair))
                        i += 1
        # a config file / raw loader next to one user-written ordered or priority loader, both supplying the same key, both orders
        i = 0
        for ulk in cl.USER_LKS:
            for other in (("file", "file"), ("add", "raw"), ("add", "file")):
                for first in (0, 1):
                    pair = [dict(kind="add", lk=ulk, keys=["a", "b"], val=1, join=False), dict(kind=other[0], lk=other[1], keys=["a", "c.x"], val=2, join=False)]
                    scs.append(dict(id="u%d" % i, opts=pair if first == 0 else pair[::-1]))
                    i += 1
        if tier == "thorough":
            scs += [dict(id="d%d" % i, opts=o) for i, o in enumerate(cl.all_sequences(3, cl.KEYSETS[:2], vals=(1,)))]
        scs += [dict(id="r%d" % i, opts=cl.rand_sequence(rng, 6)) for i in range(600 if tier == "quick" else 8000)]
    mc_err = []
    def mc_guarded():
        try:
            mc()
        except Exception as e:
            mc_err.append(e)
    th = threading.Thread(target=mc_guarded)
    if not replay:
        th.start()
    bd = os.path.join(wd, "b")
    os.makedirs(bd)
    vlib.write_ndjson(os.path.join(bd, "in.ndjson"), scs)
    p = vlib.run_harness(binary, ["config", "-in", "in.ndjson", "-out", "ct.ndjson"], cwd=bd)
    if p.returncode != 0:
        raise vlib.Infra("config harness failed: " + p.stderr[-800:])
    vlib.stage_specs(bd, ["Ordering.tla", "Config.tla", "TraceConfig.tla"])
    lines = open(os.path.join(bd, "ct.ndjson")).readlines()
    consts = dict(Scenarios="<- TraceScenarios", Paths=PATHS, FixF5="TRUE")
    inv = ["C15_Fold", "C15_SingleSupplierVisible", "M_C15_StructAgrees", "M_C15_RunOk"]
    start = 0
    nfail = 0
    while start < len(lines) and nfail < 20:
        path = os.path.join(bd, "part.ndjson")
        with open(path, "w") as f:
            f.writelines(lines[start:])
        r = el.tlc_trace(bd, "TraceConfig", path, consts, inv, [], "t", spec="MonitorSpec")
        run.cov["states"] += r.distinct
        run.cov["transitions"] += r.generated
        if r.ok:
            break
        if r.kind != "invariant":
            raise vlib.Infra("TraceConfig: " + r.error_text[:600])
        k = el._last_state_no(r.out)
        rec = json.loads(lines[start + k - 2])
        run.violation("%s violated by the effective configuration of a real start (scenario %s)" % (r.violated, rec["id"]),
                      dict(scenario=dict(id=rec["id"], opts=rec["opts"]), record=rec, operator=r.violated))
        nfail += 1
        start = start + k - 1
    run.cov["traces_validated_against_impl"] += len(lines)
    for sc in scs:
        run.count_case(sc["opts"], len(sc["opts"]) >= 2)
    run.sample(json.loads(lines[len(lines) // 2]))
    if not replay:
        th.join()
        if mc_err:
            raise mc_err[0]
    run.cov["rule"] = ("scenario = sequence of application options (config file / add loader / set loader; raw, args and file loaders) "
                       "each supplying a marker value for a subset of the leaf paths; non-trivial = at least two options")
    run.assumptions += ["documents are kind-consistent key trees (viper's handling of a scalar overriding a map is third-party behaviour)",
                        "among several file loaders (all priority, Order 0) the sequence is free, as the ordering contract allows"]
    return notes


def run_c16(run, tier, wd, binary, replay):
    notes = []
    def mc():
        md = os.path.join(wd, "mc")
        os.makedirs(md)
        vlib.stage_specs(md, ["Placeholder.tla", "MCPlaceholder.tla"])
        ml, mv = (5, 3) if tier == "quick" else (6, 4)
        vlib.write_cfg(os.path.join(md, "p.cfg"), constants=dict(Scenarios="{}", MaxSteps=6, MaxLen=ml, MaxVal=mv), init="MCInit", next_="Next",
                       invariants=["C16_Denotation", "C16_ErrorOnlyWhenUnresolvable", "C16_Bounded"], properties=["C16_Default"])
        r = vlib.run_tlc(md, "MCPlaceholder", "p.cfg", workers=8, timeout=3000, jvm=vlib.JVM_BIG)
        run.add_model_run("Placeholder: texts <= %d chars x configs with values <= %d chars (circular ones included)" % (ml, mv), r)
        if not r.ok:
            notes.append(r)
            return
        vlib.write_cfg(os.path.join(md, "pl.cfg"), constants=dict(Scenarios="{}", MaxSteps=5, MaxLen=ml - 1, MaxVal=3), init="MCInit", next_="Next",
                       properties=["C16_TerminatesFair"])
        r2 = vlib.run_tlc(md, "MCPlaceholder", "pl.cfg", workers=4, timeout=3000, jvm=vlib.JVM_BIG)
        run.add_model_run("Placeholder liveness: resolution terminates (ok or error) under weak fairness", r2)
        if not r2.ok:
            notes.append(r2)
    rng = random.Random(run.seed * 11 + 16)
    if replay:
        scs = [json.load(open(replay))["replay"]["scenario"]]
    else:
        scs = pl.scenarios(rng, 500 if tier == "quick" else 8000, "C16")
    mc_err = []
    def mc_guarded():
        try:
            mc()
        except Exception as e:
            mc_err.append(e)
    th = threading.Thread(target=mc_guarded)
    if not replay:
        th.start()
    bd = os.path.join(wd, "b")
    os.makedirs(bd)
    vlib.write_ndjson(os.path.join(bd, "in.ndjson"), scs)
    p = vlib.run_harness(binary, ["placeholder", "-in", "in.ndjson", "-out", "pt.ndjson"], cwd=bd, timeout=1800)
    if p.returncode != 0:
        raise vlib.Infra("placeholder harness failed: " + p.stderr[-800:])
    groups = el.split_trace(os.path.join(bd, "pt.ndjson"))
    vlib.stage_specs(bd, ["Placeholder.tla", "TracePlaceholder.tla"])
    consts = dict(Scenarios="<- TraceScenarios", MaxSteps=1000)
    res, errs = {}, []
    def mon():
        try:
            res["mon"] = el.validate_groups(bd, groups, "TracePlaceholder", consts,
                                            ["M_C16_Terminates", "M_C16_Denotation", "M_C16_ErrorOnlyWhenUnresolvable"], [], "m", spec="MonitorSpec", timeout=2400)
        except Exception as e:
            errs.append(e)
    def conf():
        try:
            res["conf"] = el.validate_groups(bd, groups, "TracePlaceholder", consts,
                                             ["C16_Denotation", "C16_ErrorOnlyWhenUnresolvable", "C16_Bounded"], [], "c", timeout=2400)
        except Exception as e:
            errs.append(e)
    ts = [threading.Thread(target=mon), threading.Thread(target=conf)]
    for t in ts:
        t.start()
    for t in ts:
        t.join()
    if not replay:
        th.join()
        if mc_err:
            raise mc_err[0]
    if errs:
        raise errs[0]
    drift = 0
    for layer in ("mon", "conf"):
        st, fails = res[layer]
        run.cov["states"] += st["states"]
        run.cov["transitions"] += st["generated"]
        for f in fails:
            g0 = groups[f["group"]]
            hdr = json.loads(g0[0])
            sc0 = next(s for s in scs if s["id"] == hdr["id"])
            if f["kind"] == "postcondition":
                if layer == "mon":
                    raise vlib.Infra("placeholder monitor could not consume a trace: " + f["tlc"][:400])
                drift += 1
                if drift <= 3:
                    vlib.log("DRIFT module=Placeholder scenario=%s text=%r line=%d" % (sc0["id"], sc0["text"], f["line"]))
                continue
            run.violation("%s: %s violated for tag text %r" % ("monitor" if layer == "mon" else "conformance", f["name"], sc0["text"]),
                          dict(scenario=sc0, operator=f["name"], lookups=len(g0) - 2, end=json.loads(g0[-1]), tlc=f["tlc"][:1500]))
    run.cov["traces_validated_against_impl"] += len(groups)
    for sc in scs:
        run.count_case([sc["text"], sc["keys"], sc["vals"], sc["kinds"]], "${" in sc["text"])
    for g0 in groups[:3]:
        run.sample([json.loads(x) for x in g0[:6]])
    if drift:
        run.cov["model_binding"] = "drift"
        run.cov["drifted_scenarios"] = drift
        vlib.log("DRIFT: %d scenario(s) are not behaviours of Placeholder.tla although no property failed on them" % drift)
    run.cov["rule"] = ("scenario = tag text (literals, placeholders with/without default, nested, repeated) x configuration of up to 5 keys whose "
                       "values may contain placeholders (circular and self-growing ones included), empty maps / lists; non-trivial = the text has a placeholder")
    run.assumptions += ["texts use letters, '.', ':', '$', braces only, so that ParseAny/FormatAny of defaults is the identity (value fidelity is C17's subject)",
                        "scenarios that look up an empty key (whole configuration) or a key naming a non-empty map are outside the property and not generated",
                        "an empty map/list with no default is rendered as '{}' / '[]' (modelled deviation, DESIGN 5 C16)"]
    return notes


def run_check(prop, tier, replay=None):
    run = vlib.Run(prop, tier, "model_checking")
    run.write_evidence = replay is None
    wd = vlib.scratch_dir(prop)
    try:
        binary = vlib.build_harness(wd)
        notes = (run_c15 if prop == "C15" else run_c16)(run, tier, wd, binary, replay)
        for r in notes:
            vlib.log("MODEL-COUNTEREXAMPLE %s %s" % (r.kind, r.violated))
        if notes and not run.violations:
            raise vlib.Infra("the specification admits a counterexample (%s) the real code did not reproduce" % notes[0].violated)
        run.cov["exhaustive"] = True
        run.cov["explanation"] = "exhaustive = the listed TLC families were explored completely; real runs are complete small families plus seeded samples"
        return run.finish()
    finally:
        vlib.rm(wd)
