package main

// Replay of TLC-generated call sequences (spec/Cache.tla, Export) into the REAL singleton
// component registry through its public interface; nested creations run inside the factory
// callback.  Every call's actual result and a snapshot of the registry's tables are recorded.

import (
	"bufio"
	"encoding/json"
	"errors"
	"fmt"
	"os"

	"github.com/go-kid/ioc/component_definition"
	"github.com/go-kid/ioc/container"
	"github.com/go-kid/ioc/container/support"
	"github.com/go-kid/ioc/syslog"
)

type cacheOp struct {
	Op    string `json:"op"`
	N     int    `json:"n"`
	Early bool   `json:"early"`
	Fok   bool   `json:"fok"`
	Ok    bool   `json:"ok"`
}

type cacheDummy struct{ label string }

type cacheReplayer struct {
	reg     container.SingletonComponentRegistry
	names   int
	ops     []cacheOp
	pos     int
	attempt map[int]int
	runs    map[int]int
	label   map[*component_definition.Meta]string
	nextFok bool
	out     []map[string]any
	broken  string
}

func cname(n int) string { return fmt.Sprintf("c%d", n) }

func (r *cacheReplayer) mk(label string) *component_definition.Meta {
	m := component_definition.NewMeta(&cacheDummy{label})
	r.label[m] = label
	return m
}
func (r *cacheReplayer) lab(m *component_definition.Meta) string {
	if m == nil {
		return "none"
	}
	if l, ok := r.label[m]; ok {
		return l
	}
	return "unknown"
}
func (r *cacheReplayer) snap() map[string]any {
	l1, l2 := make([]string, r.names), make([]string, r.names)
	l3, in := []int{}, []int{}
	for i := 1; i <= r.names; i++ {
		a, b, c, d, _ := support.VerifLevels(r.reg, cname(i))
		l1[i-1], l2[i-1] = r.lab(a), r.lab(b)
		if c {
			l3 = append(l3, i)
		}
		if d {
			in = append(in, i)
		}
	}
	return map[string]any{"L1": l1, "L2": l2, "L3": l3, "inCr": in}
}
func (r *cacheReplayer) emit(op cacheOp, extra map[string]any) {
	m := map[string]any{"op": op.Op, "n": op.N, "early": op.Early, "fok": op.Fok, "ok": op.Ok, "st": r.snap()}
	for k, v := range extra {
		m[k] = v
	}
	r.out = append(r.out, m)
}

// run executes ops until the createEnd that closes the creation of `until` (0 = top level)
func (r *cacheReplayer) run(until int) (ok bool, closed bool) {
	for r.pos < len(r.ops) {
		op := r.ops[r.pos]
		r.pos++
		switch op.Op {
		case "get":
			r.nextFok = op.Fok
			m, err := r.reg.GetSingleton(cname(op.N), op.Early)
			r.emit(op, map[string]any{"res": r.lab(m), "err": err != nil})
		case "isInCr":
			r.emit(op, map[string]any{"res": r.reg.IsSingletonCurrentlyInCreation(cname(op.N))})
		case "remove":
			r.reg.RemoveSingleton(cname(op.N))
			r.emit(op, nil)
		case "addFactory":
			n := op.N
			r.reg.AddSingletonFactory(cname(n), container.FuncSingletonFactory(func() (*component_definition.Meta, error) {
				if !r.nextFok {
					return nil, errors.New("early factory fails")
				}
				r.runs[n]++
				return r.mk(fmt.Sprintf("early-%d-%d", n, r.attempt[n]*10+r.runs[n])), nil
			}))
			r.emit(op, nil)
		case "createHit":
			called := false
			m, err := r.reg.GetSingletonOrCreateByFactory(cname(op.N), container.FuncSingletonFactory(func() (*component_definition.Meta, error) {
				called = true
				return nil, errors.New("factory must not run on a hit")
			}))
			r.emit(op, map[string]any{"res": r.lab(m), "err": err != nil, "factoryRan": called})
		case "createBegin":
			n := op.N
			r.attempt[n]++
			r.runs[n] = 0
			entered := false
			var endOp cacheOp
			gotEnd := false
			m, err := r.reg.GetSingletonOrCreateByFactory(cname(n), container.FuncSingletonFactory(func() (*component_definition.Meta, error) {
				entered = true
				r.emit(op, nil) // createBegin: the name is marked, the factory body starts
				okEnd, closedEnd := r.run(n)
				if !closedEnd {
					return nil, errors.New("history ended inside a creation")
				}
				endOp, gotEnd = r.ops[r.pos-1], true
				if okEnd {
					return r.mk(fmt.Sprintf("final-%d-%d", n, r.attempt[n])), nil
				}
				return nil, errors.New("creation fails")
			}))
			if !entered {
				r.broken = "factory not entered for createBegin"
				r.emit(op, map[string]any{"skipped": true})
				return false, false
			}
			if gotEnd {
				r.emit(endOp, map[string]any{"res": r.lab(m), "err": err != nil})
			}
		case "createEnd":
			if op.N != until {
				r.broken = "unbalanced createEnd"
			}
			return op.Ok, true
		}
	}
	return false, false
}

func cmdCache(in, out string, names int) error {
	syslog.Level(syslog.LvPanic)
	fi, err := os.Open(in)
	if err != nil {
		return err
	}
	defer fi.Close()
	fo, err := os.Create(out)
	if err != nil {
		return err
	}
	defer fo.Close()
	w := bufio.NewWriterSize(fo, 1<<20)
	defer w.Flush()
	enc := json.NewEncoder(w)
	sc := bufio.NewScanner(fi)
	sc.Buffer(make([]byte, 1<<20), 1<<24)
	n := 0
	for sc.Scan() {
		var ops []cacheOp
		if err := json.Unmarshal(sc.Bytes(), &ops); err != nil {
			return err
		}
		r := &cacheReplayer{reg: support.DefaultSingletonComponentRegistry(), names: names, ops: ops, attempt: map[int]int{}, runs: map[int]int{}, label: map[*component_definition.Meta]string{}}
		r.run(0)
		if r.broken != "" {
			return fmt.Errorf("history %d: %s", n, r.broken)
		}
		_ = enc.Encode(map[string]any{"op": "hist", "id": n})
		for _, e := range r.out {
			_ = enc.Encode(e)
		}
		n++
	}
	fmt.Fprintf(os.Stderr, "cache: %d histories replayed\n", n)
	return sc.Err()
}
