package main

// Scenarios for the race-detector runs (binary built with -race, one process per scenario):
//   scan  : n plain components, a user DefinitionRegistryPostProcessor that fails for k of them; the failing
//           scanner goroutines meet at a barrier so that they append their errors at the same moment
//   close : n closers, k of them failing at the same moment (they all log through syslog)
//   maps  : goroutines hammering one sync2.Map / ConcurrentSets with every operation
// The race detector's report (GORACE log_path) is the observation; the driver attaches it to the record.

import (
	"encoding/json"
	"errors"
	"fmt"
	"os"
	"strings"
	"sync"
	"sync/atomic"
	"time"

	"github.com/go-kid/ioc/app"
	"github.com/go-kid/ioc/component_definition"
	"github.com/go-kid/ioc/container"
	"github.com/go-kid/ioc/container/processors"
	"github.com/go-kid/ioc/syslog"
	"github.com/go-kid/ioc/util/list"
	"github.com/go-kid/ioc/util/sync2"
)

type raceScenario struct {
	Kind    string `json:"kind"`
	N       int    `json:"n"`
	Failing int    `json:"failing"`
	Iter    int    `json:"iter"`
}

type rcomp struct {
	name string
	X    string `rtag:"x"` // claimed by the fail scanner's own tag (a custom tag, as a user-written scanner would have)
}

func (c *rcomp) Naming() string { return c.name }

type failScanner struct {
	processors.DefaultTagScanDefinitionRegistryPostProcessor
	failing  map[string]bool
	arrive   sync.WaitGroup
	release  chan struct{}
	once     sync.Once
	hold     chan struct{} // non-failing scanner calls wait here (until Run has returned, or 100 ms) when something fails
	holdOnce sync.Once
	started  int64
	finished int64
}

func (f *failScanner) openHold() { f.holdOnce.Do(func() { close(f.hold) }) }

func (f *failScanner) Naming() string { return "zz-failscanner" }
func (f *failScanner) PostProcessDefinitionRegistry(registry container.DefinitionRegistry, component any, name string) error {
	if f.failing[name] {
		// all failing scanners return at (nearly) the same moment
		f.arrive.Done()
		go f.once.Do(func() {
			done := make(chan struct{})
			go func() { f.arrive.Wait(); close(done) }()
			select {
			case <-done:
			case <-time.After(500 * time.Millisecond): // a sequential implementation never assembles them all
			}
			close(f.release)
		})
		<-f.release
		return errors.New("scan-failure-" + name)
	}
	if len(f.failing) > 0 && f.hold != nil {
		// the other components' scans are still under way when the failing ones report: a start-up that returns without
		// joining them leaves them running next to whatever the caller does with the container afterwards
		atomic.AddInt64(&f.started, 1)
		defer atomic.AddInt64(&f.finished, 1)
		select {
		case <-f.hold:
		case <-time.After(100 * time.Millisecond):
		}
	}
	// what every tag scanner does: record the fields carrying its tag in the component's definition
	return f.DefaultTagScanDefinitionRegistryPostProcessor.PostProcessDefinitionRegistry(registry, component, name)
}

type rcloser struct {
	name    string
	fail    bool
	arrive  *sync.WaitGroup
	release chan struct{}
}

func (c *rcloser) Naming() string { return c.name }
func (c *rcloser) Close() error {
	c.arrive.Done()
	<-c.release
	if c.fail {
		return errors.New("close-failure-" + c.name)
	}
	return nil
}

func cmdRace(in string) error {
	data, err := os.ReadFile(in)
	if err != nil {
		return err
	}
	var sc raceScenario
	if err := json.Unmarshal(data, &sc); err != nil {
		return err
	}
	out := map[string]any{"kind": sc.Kind, "n": sc.N, "failing": sc.Failing, "ok": true, "kept": 0}
	switch sc.Kind {
	case "scan":
		fs := &failScanner{failing: map[string]bool{}, release: make(chan struct{}), hold: make(chan struct{})}
		fs.Tag, fs.NodeType = "rtag", component_definition.PropertyTypeConfiguration
		var comps []any
		for i := 1; i <= sc.N; i++ {
			n := fmt.Sprintf("rc%03d", i)
			comps = append(comps, &rcomp{name: n})
			if i <= sc.Failing {
				fs.failing[n] = true
			}
		}
		fs.arrive.Add(sc.Failing)
		ap := app.NewApp()
		var rerr error
		returned := make(chan struct{})
		go func() {
			rerr = ap.Run(app.LogLevel(syslog.LvPanic), app.SetComponents(append(comps, fs)...))
			close(returned)
		}()
		select {
		case <-returned:
		case <-time.After(20 * time.Second):
			// a start that never returns (e.g. a scanning phase that waits for a goroutine stuck on its error report) is an
			// observation, not a harness timeout
			out["ok"], out["hung"], out["inflight"], out["kept"] = false, true, 0, 0
			fs.openHold()
			break
		}
		if h, _ := out["hung"].(bool); h {
			break
		}
		out["ok"] = rerr == nil
		// scanner calls still in flight when Run returned (0 for a start-up that joins its scan phase) ...
		out["inflight"] = atomic.LoadInt64(&fs.started) - atomic.LoadInt64(&fs.finished)
		fs.openHold()
		// ... and what a caller may do next: look at the definitions the scan phase wrote
		for t := 0; t < 20; t++ {
			for _, m := range ap.GetDefinitionRegistry().GetMetas() {
				_ = m.GetAllProperties()
				_ = m.Name()
			}
			time.Sleep(time.Millisecond)
		}
		kept := 0
		if rerr != nil {
			for n := range fs.failing {
				if strings.Contains(rerr.Error(), "scan-failure-"+n) {
					kept++
				}
			}
		}
		out["kept"] = kept
	case "close":
		var comps []any
		var arrive sync.WaitGroup
		release := make(chan struct{})
		arrive.Add(sc.N)
		for i := 1; i <= sc.N; i++ {
			comps = append(comps, &rcloser{fmt.Sprintf("cl%03d", i), i <= sc.Failing, &arrive, release})
		}
		ap := app.NewApp()
		if rerr := ap.Run(app.LogLevel(syslog.LvPanic), app.SetComponents(comps...)); rerr != nil {
			out["ok"] = false
			break
		}
		done := make(chan struct{})
		go func() { ap.Close(); close(done) }()
		assembled := make(chan struct{})
		go func() { arrive.Wait(); close(assembled) }()
		select {
		case <-assembled:
		case <-time.After(500 * time.Millisecond):
		}
		close(release)
		select {
		case <-done:
		case <-time.After(5 * time.Second):
			out["ok"] = false
		}
	case "maps":
		m := sync2.New[int, int]()
		set := list.NewConcurrentSets()
		gset := list.NewGenericConcurrentSets[int]()
		var wg sync.WaitGroup
		var incoherent int64
		for g := 0; g < sc.N; g++ {
			wg.Add(1)
			go func(g int) {
				defer wg.Done()
				own, ownS := 1000+g, fmt.Sprintf("own-%d", g)
				for i := 0; i < sc.Iter; i++ {
					// a key only this goroutine touches, while the others hammer the shared keys: whatever the interleaving, an
					// atomic container answers these calls as if they ran alone (a sequential witness exists only then)
					set.Put(ownS)
					gset.Put(own)
					m.Store(own, i)
					if v, ok := m.Load(own); !ok || v != i {
						atomic.AddInt64(&incoherent, 1)
					}
					if !set.Exists(ownS) || !gset.Exists(own) {
						atomic.AddInt64(&incoherent, 1)
					}
					set.Remove(ownS)
					gset.Remove(own)
					m.Delete(own)
					if _, ok := m.Load(own); ok {
						atomic.AddInt64(&incoherent, 1)
					}
					if set.Exists(ownS) || gset.Exists(own) {
						atomic.AddInt64(&incoherent, 1)
					}
					if v, loaded := m.LoadOrStore(own, -i); loaded || v != -i {
						atomic.AddInt64(&incoherent, 1)
					}
					m.Delete(own)
					k := i % 3
					switch (i + g) % 7 {
					case 0:
						m.Store(k, g)
					case 1:
						m.Load(k)
					case 2:
						m.LoadOrStore(k, g)
					case 3:
						m.LoadOrStoreFn(k, func() int { return g })
					case 4:
						m.Delete(k)
					case 5:
						m.Range(func(int, int) bool { return true })
					case 6:
						set.Put(fmt.Sprint(k))
						set.Exists(fmt.Sprint(k))
						set.Remove(fmt.Sprint(k))
						gset.Put(k)
						gset.Exists(k)
						gset.Remove(k)
					}
					// two goroutines removing the same present key at the same moment
					set.Put("hot")
					set.Remove("hot")
					gset.Put(-1)
					gset.Remove(-1)
				}
			}(g)
		}
		// every operation of an atomic container returns: with all goroutines started, the run ends (milliseconds); an operation
		// that never returns cannot be placed in any sequential witness
		fin := make(chan struct{})
		go func() { wg.Wait(); close(fin) }()
		select {
		case <-fin:
			out["hung"] = false
		case <-time.After(30 * time.Second):
			out["hung"] = true
		}
		out["incoherent"] = atomic.LoadInt64(&incoherent)
	default:
		return fmt.Errorf("unknown race scenario kind %q", sc.Kind)
	}
	return json.NewEncoder(os.Stdout).Encode(out)
}
