package main

// Free-running histories of the REAL component-definition registry (container/support): G goroutines register definitions
// (RegisterMeta / GetMetaOrRegister) and enumerate them (GetMetas, GetMetaByName) as fast as they can - what the goroutines
// of the parallel scanning phase do when user-written scanners contribute and enumerate definitions.  No gates: the
// interleavings inside single operations come from the scheduler.  Every call is logged with two numbers drawn from one
// atomic counter, `inv` before the call is issued and `ret` after it has returned, so the logged interval CONTAINS the real
// one (sound for "completed before": ret_a < inv_b implies a really returned before b really started).  The registry only
// grows, so a history is explainable sequentially iff every enumeration contains every definition whose registration
// completed before it started and nothing that was registered only after it returned (spec/TraceRegHist.tla).

import (
	"bufio"
	"encoding/json"
	"fmt"
	"os"
	"sort"
	"sync"
	"sync/atomic"
	"time"

	"github.com/go-kid/ioc/component_definition"
	"github.com/go-kid/ioc/container/support"
)

type rsIn struct {
	Rounds int   `json:"rounds"`
	G      int   `json:"g"`
	Per    int   `json:"per"` // registrations per goroutine
	Seed   int64 `json:"seed"`
}

type rsEv struct {
	A   string `json:"a"`
	Op  string `json:"op"`
	G   int    `json:"g"`
	K   int    `json:"k"`
	Ks  []int  `json:"ks"`
	Inv int64  `json:"inv"`
	Ret int64  `json:"ret"`
	Hit bool   `json:"hit"` // byname: found; getorreg: somebody else's definition came back
}

func regStressRound(g, per int, round int) []rsEv {
	reg := support.DefaultDefinitionRegistry()
	var clock int64
	logs := make([][]rsEv, g+1)
	keyOf := func(mt *component_definition.Meta) int {
		if c, ok := mt.Raw.(*regComp); ok {
			return c.k
		}
		return -1
	}
	enumerate := func() []int {
		ks := []int{}
		for _, mt := range reg.GetMetas() {
			ks = append(ks, keyOf(mt))
		}
		return ks
	}
	var wg sync.WaitGroup
	start := make(chan struct{})
	for w := 1; w <= g; w++ {
		wg.Add(1)
		go func(w int) {
			defer wg.Done()
			<-start
			for j := 0; j < per; j++ {
				k := w*1000 + j
				c := &regComp{k: k, v: k}
				ev := rsEv{A: "ev", G: w, K: k, Ks: []int{}}
				if (j+w+round)%2 == 0 {
					ev.Op = "reg"
					mt := component_definition.NewMeta(c)
					ev.Inv = atomic.AddInt64(&clock, 1)
					reg.RegisterMeta(mt)
					ev.Ret = atomic.AddInt64(&clock, 1)
				} else {
					ev.Op = "reg" // through GetMetaOrRegister: the name is new, so it registers
					ev.Inv = atomic.AddInt64(&clock, 1)
					mt := reg.GetMetaOrRegister(fmt.Sprintf("k%d", k), c)
					ev.Ret = atomic.AddInt64(&clock, 1)
					ev.Hit = mt == nil || mt.Raw != any(c)
				}
				logs[w] = append(logs[w], ev)
				e2 := rsEv{A: "ev", Op: "metas", G: w}
				e2.Inv = atomic.AddInt64(&clock, 1)
				e2.Ks = enumerate()
				e2.Ret = atomic.AddInt64(&clock, 1)
				logs[w] = append(logs[w], e2)
				if j%3 == 0 {
					e3 := rsEv{A: "ev", Op: "byname", G: w, K: k, Ks: []int{}}
					e3.Inv = atomic.AddInt64(&clock, 1)
					e3.Hit = reg.GetMetaByName(fmt.Sprintf("k%d", k)) != nil
					e3.Ret = atomic.AddInt64(&clock, 1)
					logs[w] = append(logs[w], e3)
				}
			}
		}(w)
	}
	close(start)
	// an operation that never returns (nothing it could wait for outlives the round) is an observation, not a harness timeout
	joined := make(chan struct{})
	go func() { wg.Wait(); close(joined) }()
	select {
	case <-joined:
	case <-time.After(20 * time.Second):
		return []rsEv{{A: "ev", Op: "stuck", Ks: []int{}}}
	}
	// after the join: one last enumeration by the caller (what the container does after the scanning phase)
	last := rsEv{A: "ev", Op: "metas", G: 0}
	last.Inv = atomic.AddInt64(&clock, 1)
	last.Ks = enumerate()
	last.Ret = atomic.AddInt64(&clock, 1)
	all := []rsEv{last}
	for _, l := range logs {
		all = append(all, l...)
	}
	sort.Slice(all, func(i, j int) bool { return all[i].Ret < all[j].Ret })
	return all
}

func cmdRegStress(in, out string) error {
	b, err := os.ReadFile(in)
	if err != nil {
		return err
	}
	var c rsIn
	if err := json.Unmarshal(b, &c); err != nil {
		return err
	}
	fo, err := os.Create(out)
	if err != nil {
		return err
	}
	defer fo.Close()
	w := bufio.NewWriterSize(fo, 1<<20)
	defer w.Flush()
	enc := json.NewEncoder(w)
	n := 0
	for r := 0; r < c.Rounds; r++ {
		_ = enc.Encode(map[string]any{"a": "hist", "id": r})
		evs := regStressRound(c.G, c.Per, r)
		for _, e := range evs {
			_ = enc.Encode(e)
			n++
		}
		_ = enc.Encode(map[string]any{"a": "end", "id": r})
		if len(evs) == 1 && evs[0].Op == "stuck" {
			break // the goroutines of that round are abandoned: no further rounds next to them
		}
	}
	fmt.Fprintf(os.Stderr, "regstress: %d rounds, %d events\n", c.Rounds, n)
	return nil
}
