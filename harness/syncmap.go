package main

// Replay of TLC-generated schedules (spec/SyncMap.tla, Export) on the REAL sync2.Map and
// ConcurrentSets with real goroutines.  A "start" action makes goroutine g run its operation; atomic
// delegations complete at once, LoadOrStoreFn may stop inside the caller-supplied f, which blocks on a
// gate until the schedule's "release" action.  Every action's actual outcome is recorded.

import (
	"bufio"
	"encoding/json"
	"fmt"
	"os"

	"github.com/go-kid/ioc/util/list"
	"github.com/go-kid/ioc/util/sync2"
)

type smAct struct {
	A  string `json:"a"`
	G  int    `json:"g"`
	Op string `json:"op"`
	K  int    `json:"k"`
	V  int    `json:"v"`
}

type smResult struct {
	entered bool // stopped inside f
	rv      int
	rok     bool
}

type smWorker struct {
	cmd     chan smAct
	res     chan smResult
	gate    chan struct{}
	pending bool
}

func runSchedule(acts []smAct) []map[string]any {
	m := sync2.New[int, int]()
	set := list.NewConcurrentSets()
	gset := list.NewGenericConcurrentSets[int]()
	workers := map[int]*smWorker{}
	worker := func(g int) *smWorker {
		if w, ok := workers[g]; ok {
			return w
		}
		w := &smWorker{cmd: make(chan smAct), res: make(chan smResult)}
		workers[g] = w
		go func() {
			for a := range w.cmd {
				var r smResult
				switch a.Op {
				case "Load":
					r.rv, r.rok = m.Load(a.K)
				case "Store":
					m.Store(a.K, a.V)
					r.rok = true
				case "Delete":
					m.Delete(a.K)
					r.rok = true
				case "LoadOrStore":
					r.rv, r.rok = m.LoadOrStore(a.K, a.V)
				case "LoadOrStoreFn":
					r.rv, r.rok = m.LoadOrStoreFn(a.K, func() int {
						w.gate = make(chan struct{})
						w.res <- smResult{entered: true}
						<-w.gate
						return a.V
					})
				case "Put":
					set.Put(fmt.Sprint(a.K))
					gset.Put(a.K)
					r.rok = true
				case "Remove":
					set.Remove(fmt.Sprint(a.K))
					gset.Remove(a.K)
					r.rok = true
				case "Exists":
					r.rok = set.Exists(fmt.Sprint(a.K))
					if gset.Exists(a.K) != r.rok {
						r.rv = -7 // the two set implementations disagree
					}
				}
				w.res <- r
			}
		}()
		return w
	}
	var out []map[string]any
	for _, a := range acts {
		w := worker(a.G)
		ev := map[string]any{"a": a.A, "g": a.G, "op": a.Op, "k": a.K, "v": a.V}
		switch a.A {
		case "start":
			if w.pending {
				ev["skipped"] = true
				break
			}
			w.cmd <- a
			r := <-w.res
			if r.entered {
				w.pending = true
				ev["done"] = false
				ev["rv"], ev["rok"] = 0, false
			} else {
				ev["done"] = true
				ev["rv"], ev["rok"] = r.rv, r.rok
			}
		case "release":
			if !w.pending {
				ev["skipped"] = true
				break
			}
			close(w.gate)
			r := <-w.res
			w.pending = false
			ev["done"] = true
			ev["rv"], ev["rok"] = r.rv, r.rok
		}
		out = append(out, ev)
	}
	for _, w := range workers {
		if w.pending {
			close(w.gate)
			<-w.res
		}
		close(w.cmd)
	}
	return out
}

func cmdSyncMap(in, out string) error {
	fi, err := os.Open(in)
	if err != nil {
		return err
	}
	defer fi.Close()
	fo, err := os.Create(out)
	if err != nil {
		return err
	}
	defer fo.Close()
	w := bufio.NewWriterSize(fo, 1<<20)
	defer w.Flush()
	enc := json.NewEncoder(w)
	sc := bufio.NewScanner(fi)
	sc.Buffer(make([]byte, 1<<20), 1<<24)
	n := 0
	for sc.Scan() {
		var acts []smAct
		if err := json.Unmarshal(sc.Bytes(), &acts); err != nil {
			return err
		}
		_ = enc.Encode(map[string]any{"a": "hist", "id": n})
		for _, e := range runSchedule(acts) {
			_ = enc.Encode(e)
		}
		n++
	}
	fmt.Fprintf(os.Stderr, "syncmap: %d schedules replayed\n", n)
	return sc.Err()
}
