package main

// Replay of TLC-generated schedules (spec/SyncMap.tla, Export) on the REAL sync2.Map and
// ConcurrentSets with real goroutines.  A "start" action makes goroutine g run its operation; atomic
// delegations complete at once, LoadOrStoreFn may stop inside the caller-supplied f, which blocks on a
// gate until the schedule's "release" action.  Every action's actual outcome is recorded.

import (
	"bufio"
	"encoding/json"
	"fmt"
	"os"
	"time"

	"github.com/go-kid/ioc/component_definition"
	"github.com/go-kid/ioc/container/support"
	"github.com/go-kid/ioc/util/list"
	"github.com/go-kid/ioc/util/sync2"
)

type smAct struct {
	A  string `json:"a"`
	G  int    `json:"g"`
	Op string `json:"op"`
	K  int    `json:"k"`
	V  int    `json:"v"`
}

type smResult struct {
	entered bool // stopped inside f
	rv      int
	rok     bool
	rvs     []int // RMetas: the values of the registered definitions, in the order GetMetas returned them
	list    bool
}

// regComp is what the schedules register with the real component-definition registry: component v under the name k<k>.
// NewMeta calls Naming() - from inside the function GetMetaOrRegister hands to LoadOrStoreFn - which is where the
// schedule's gate sits.
type regComp struct {
	k, v int
	gate func()
}

func (c *regComp) Naming() string {
	if g := c.gate; g != nil {
		c.gate = nil
		g()
	}
	return fmt.Sprintf("k%d", c.k)
}

type smWorker struct {
	cmd     chan smAct
	res     chan smResult
	gate    chan struct{}
	pending bool  // stopped inside f, waiting for the schedule's release
	blocked bool  // the operation neither returned nor reached f: it waits for something another goroutine holds
	act     smAct // the operation in flight
}

// how long the scheduler waits for an operation to return or to reach f before it records it as blocked.  A blocked
// operation stays in the history as invoked-but-not-returned; its return is recorded when it is observed (after a later
// release).  A slow goroutine mistaken for a blocked one only widens its interval in the history, which is sound.
// Once an operation has been seen blocked the implementation is known to be a blocking one and later schedules wait less.
var smBlockWait = 300 * time.Millisecond

func runSchedule(acts []smAct) []map[string]any {
	m := sync2.New[int, int]()
	set := list.NewConcurrentSets()
	gset := list.NewGenericConcurrentSets[int]()
	reg := support.DefaultDefinitionRegistry()
	valOf := func(mt *component_definition.Meta) int {
		if mt == nil {
			return 0
		}
		if c, ok := mt.Raw.(*regComp); ok {
			return c.v
		}
		return -1
	}
	workers := map[int]*smWorker{}
	worker := func(g int) *smWorker {
		if w, ok := workers[g]; ok {
			return w
		}
		w := &smWorker{cmd: make(chan smAct), res: make(chan smResult)}
		workers[g] = w
		go func() {
			for a := range w.cmd {
				var r smResult
				switch a.Op {
				case "Load":
					r.rv, r.rok = m.Load(a.K)
				case "Store":
					m.Store(a.K, a.V)
					r.rok = true
				case "Delete":
					m.Delete(a.K)
					r.rok = true
				case "LoadOrStore":
					r.rv, r.rok = m.LoadOrStore(a.K, a.V)
				case "LoadOrStoreFn":
					r.rv, r.rok = m.LoadOrStoreFn(a.K, func() int {
						w.gate = make(chan struct{})
						w.res <- smResult{entered: true}
						<-w.gate
						return a.V
					})
				case "RGetOrReg":
					c := &regComp{k: a.K, v: a.V}
					c.gate = func() {
						w.gate = make(chan struct{})
						w.res <- smResult{entered: true}
						<-w.gate
					}
					mt := reg.GetMetaOrRegister(fmt.Sprintf("k%d", a.K), c)
					r.rv = valOf(mt)
					r.rok = mt == nil || mt.Raw != any(c) // loaded: somebody else's definition came back
				case "RReg":
					reg.RegisterMeta(component_definition.NewMeta(&regComp{k: a.K, v: a.V}))
					r.rok = true
				case "RByName":
					mt := reg.GetMetaByName(fmt.Sprintf("k%d", a.K))
					r.rv, r.rok = valOf(mt), mt != nil
				case "RMetas":
					r.list, r.rok, r.rvs = true, true, []int{}
					for _, mt := range reg.GetMetas() {
						r.rvs = append(r.rvs, valOf(mt))
					}
				case "Put":
					set.Put(fmt.Sprint(a.K))
					gset.Put(a.K)
					r.rok = true
				case "Remove":
					set.Remove(fmt.Sprint(a.K))
					gset.Remove(a.K)
					r.rok = true
				case "Exists":
					r.rok = set.Exists(fmt.Sprint(a.K))
					if gset.Exists(a.K) != r.rok {
						r.rv = -7 // the two set implementations disagree
					}
				}
				w.res <- r
			}
		}()
		return w
	}
	var out []map[string]any
	// take what a worker reports: it returned (done) or it is now inside f (pending)
	settle := func(w *smWorker, r smResult, ev map[string]any) {
		w.blocked = false
		if r.entered {
			w.pending = true
			ev["done"] = false
			ev["rv"], ev["rok"] = 0, false
		} else {
			w.pending = false
			ev["done"] = true
			ev["rv"], ev["rok"] = r.rv, r.rok
			if r.list {
				ev["rv"] = r.rvs
			}
		}
	}
	// after every action: has a blocked operation moved on?
	pollBlocked := func(wait time.Duration) {
		for g := 1; g <= 16; g++ {
			w, ok := workers[g]
			if !ok || !w.blocked {
				continue
			}
			select {
			case r := <-w.res:
				ev := map[string]any{"a": "unblock", "g": g, "op": w.act.Op, "k": w.act.K, "v": w.act.V}
				settle(w, r, ev)
				out = append(out, ev)
			case <-time.After(wait):
			}
		}
	}
	for _, a := range acts {
		w := worker(a.G)
		ev := map[string]any{"a": a.A, "g": a.G, "op": a.Op, "k": a.K, "v": a.V}
		switch a.A {
		case "start":
			if w.pending || w.blocked {
				continue // the goroutine is still busy (the real containers deviated from the schedule): nothing happens
			}
			w.act = a
			w.cmd <- a
			select {
			case r := <-w.res:
				settle(w, r, ev)
			case <-time.After(smBlockWait):
				w.blocked = true
				ev["done"], ev["blocked"] = false, true
				ev["rv"], ev["rok"] = 0, false
			}
		case "release":
			if !w.pending {
				continue
			}
			// the operation that is released is the one in flight (the schedule's own record of it differs once the real
			// containers have deviated from the schedule)
			ev["op"], ev["k"], ev["v"] = w.act.Op, w.act.K, w.act.V
			close(w.gate)
			select {
			case r := <-w.res:
				settle(w, r, ev)
			case <-time.After(smBlockWait):
				// f has returned but the operation has not: from here on it is blocked like any other
				w.pending, w.blocked = false, true
				ev["done"], ev["blocked"] = false, true
				ev["rv"], ev["rok"] = 0, false
			}
		}
		out = append(out, ev)
		pollBlocked(smBlockWait / 6)
	}
	// drain: let everything that is inside f return, then wait for what was blocked
	for round := 0; round < 64; round++ {
		busy := false
		for g := 1; g <= 16; g++ {
			w, ok := workers[g]
			if !ok || !w.pending {
				continue
			}
			busy = true
			ev := map[string]any{"a": "release", "g": g, "op": w.act.Op, "k": w.act.K, "v": w.act.V, "drain": true}
			close(w.gate)
			select {
			case r := <-w.res:
				settle(w, r, ev)
			case <-time.After(smBlockWait):
				w.pending, w.blocked = false, true
				ev["done"], ev["blocked"] = false, true
				ev["rv"], ev["rok"] = 0, false
			}
			out = append(out, ev)
		}
		pollBlocked(smBlockWait)
		stillBlocked := false
		for _, w := range workers {
			stillBlocked = stillBlocked || w.blocked || w.pending
		}
		if !stillBlocked {
			break
		}
		if !busy {
			pollBlocked(5 * time.Second)
			break
		}
	}
	for _, ev := range out {
		if b, _ := ev["blocked"].(bool); b {
			smBlockWait = 40 * time.Millisecond
		}
	}
	for g, w := range workers {
		if w.blocked || w.pending {
			// an operation that never returns although nothing else is in flight: recorded, the goroutine is abandoned
			out = append(out, map[string]any{"a": "stuck", "g": g, "op": w.act.Op, "k": w.act.K, "v": w.act.V, "done": false, "rv": 0, "rok": false})
			continue
		}
		close(w.cmd)
	}
	return out
}

func cmdSyncMap(in, out string) error {
	fi, err := os.Open(in)
	if err != nil {
		return err
	}
	defer fi.Close()
	fo, err := os.Create(out)
	if err != nil {
		return err
	}
	defer fo.Close()
	w := bufio.NewWriterSize(fo, 1<<20)
	defer w.Flush()
	enc := json.NewEncoder(w)
	sc := bufio.NewScanner(fi)
	sc.Buffer(make([]byte, 1<<20), 1<<24)
	n := 0
	for sc.Scan() {
		var acts []smAct
		if err := json.Unmarshal(sc.Bytes(), &acts); err != nil {
			return err
		}
		_ = enc.Encode(map[string]any{"a": "hist", "id": n})
		for _, e := range runSchedule(acts) {
			_ = enc.Encode(e)
		}
		n++
	}
	fmt.Fprintf(os.Stderr, "syncmap: %d schedules replayed\n", n)
	return sc.Err()
}
