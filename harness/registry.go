package main

// Replay of TLC-generated registration sequences (spec/Registry.tla) on the REAL singleton registry.
// Objects 1..4: 1 and 2 share a custom name, 3 has its own custom name, 4 and 5 are two instances of one type
// without a custom name (same default name), 6 and 7 are two field-less types sharing a custom name (and, in Go, an address).

import (
	"bufio"
	"encoding/json"
	"fmt"
	"os"

	"github.com/go-kid/ioc/container/support"
	"github.com/go-kid/ioc/syslog"
)

type regNamed struct {
	id   int
	name string
}

func (r *regNamed) Naming() string { return r.name }

type regPlain struct{ id int }

// two DIFFERENT field-less component types under one custom name: distinct components that share their address
type regZ1 struct{}
type regZ2 struct{}

func (*regZ1) Naming() string { return "zname" }
func (*regZ2) Naming() string { return "zname" }

func regObjects() map[int]any {
	return map[int]any{1: &regNamed{1, "shared"}, 2: &regNamed{2, "shared"}, 3: &regNamed{3, "own"}, 4: &regPlain{4}, 5: &regPlain{5}, 6: &regZ1{}, 7: &regZ2{}}
}

var regNames = map[string]string{"shared": "shared", "own": "own", "plain": "verifharness-default"}

type regOp struct {
	Op string `json:"op"`
	O  int    `json:"o"`
	N  string `json:"n"`
}

func cmdRegistry(in, out string) error {
	syslog.Level(syslog.LvPanic)
	fi, err := os.Open(in)
	if err != nil {
		return err
	}
	defer fi.Close()
	fo, err := os.Create(out)
	if err != nil {
		return err
	}
	defer fo.Close()
	w := bufio.NewWriterSize(fo, 1<<20)
	defer w.Flush()
	enc := json.NewEncoder(w)
	sc := bufio.NewScanner(fi)
	sc.Buffer(make([]byte, 1<<20), 1<<24)
	n := 0
	for sc.Scan() {
		var ops []regOp
		if err := json.Unmarshal(sc.Bytes(), &ops); err != nil {
			return err
		}
		objs := regObjects()
		ids := map[any]int{}
		for id, o := range objs {
			ids[o] = id
		}
		r := support.NewRegistry()
		_ = enc.Encode(map[string]any{"op": "hist", "id": n})
		for _, op := range ops {
			switch op.Op {
			case "register":
				before := r.GetSingletonCount()
				res := "stored"
				func() {
					defer func() {
						if x := recover(); x != nil {
							res = "rejected"
						}
					}()
					r.RegisterSingleton(objs[op.O])
					if r.GetSingletonCount() == before {
						res = "same"
					}
				}()
				_ = enc.Encode(map[string]any{"op": "register", "o": op.O, "res": res, "names": r.GetSingletonCount()})
			case "get":
				name := op.N
				if name == "plain" {
					name = "main/regPlain"
				}
				got := 0
				if c, err := r.GetSingleton(name); err == nil {
					got = ids[c]
				}
				if r.ContainsSingleton(name) != (got != 0) {
					got = -1
				}
				_ = enc.Encode(map[string]any{"op": "get", "n": op.N, "o": got})
			}
		}
		n++
	}
	fmt.Fprintf(os.Stderr, "registry: %d sequences\n", n)
	return sc.Err()
}
