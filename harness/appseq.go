package main

// App harness: one App.Run (and App.Close) per scenario of spec/App.tla.  Loaders, user post-processors,
// runners and closers of each ordering class are realised with the types below; every callback logs one
// event under a single mutex with a global sequence number.  Closers block on gates so that the finishing
// order of the concurrent Close calls is the scenario's.

import (
	"bufio"
	"encoding/json"
	"errors"
	"fmt"
	"math/rand"
	"os"
	"strings"
	"sync"
	"time"

	"github.com/go-kid/ioc/app"
	"github.com/go-kid/ioc/component_definition"
	"github.com/go-kid/ioc/configure"
	"github.com/go-kid/ioc/configure/binder"
	"github.com/go-kid/ioc/container/factory"
	"github.com/go-kid/ioc/container/support"
	"github.com/go-kid/ioc/definition"
	"github.com/go-kid/ioc/syslog"
	"github.com/go-kid/ioc/util/framework_helper"
)

type APart struct {
	Cls  string `json:"cls"` // prio | ord | un
	Ord  int    `json:"ord"`
	Fail bool   `json:"fail"`
	Doc  string `json:"doc"` // loaders: YAML document
	Lazy bool   `json:"lazy"` // closers: the closer is LazyInit
	Dyn  bool   `json:"dyn"`  // ordered runners: Order() answers with a decoy (the negated value) until the last plain component has been initialised
	Zero bool   `json:"zero"` // runners, closers: realised by a FIELD-LESS type (all zero-size objects share one address)
}
type AScenario struct {
	ID         string  `json:"id"`
	Loaders    []APart `json:"loaders"`
	Procs      []APart `json:"procs"`
	Runners    []APart `json:"runners"`
	Closers    []APart `json:"closers"`
	Comps      int     `json:"comps"`
	InitFail   int     `json:"initFail"`
	Seed       int64   `json:"seed"`
	CloseOrder []int   `json:"closeOrder"`
	Hold       float64 `json:"hold"`  // seconds every closer stays blocked after all have been invoked (a Close that gives up waiting shows)
	Restart    bool    `json:"restart"` // after a successful start the SAME App is started again with a fresh registry / factory and no components
	Cycle      bool    `json:"cycle"` // k000 <-> k001: the early reference of k000 is requested while k001 is populated
}

// TLC integers are 32 bit: the scenario encodes the extremes symbolically and the harness maps them
// monotonically onto the real extremes of Go's int.
func realOrd(o int) int {
	switch {
	case o >= 1000000:
		return int(^uint(0) >> 1) // MaxInt
	case o <= -1000000:
		return -int(^uint(0)>>1) - 1 // MinInt
	}
	return o
}

type alog struct {
	mu  sync.Mutex
	evs []map[string]any
}

func (l *alog) emit(ev string, kv map[string]any) {
	l.mu.Lock()
	defer l.mu.Unlock()
	m := map[string]any{"ev": ev, "seq": len(l.evs) + 1}
	for k, v := range kv {
		m[k] = v
	}
	l.evs = append(l.evs, m)
}
func (l *alog) has(ev string, key string, val int) bool {
	l.mu.Lock()
	defer l.mu.Unlock()
	for _, e := range l.evs {
		if e["ev"] == ev && e[key] == val {
			return true
		}
	}
	return false
}

// injected failures come in several shapes: a pointer-shaped error, and value-typed errors whose value is the ZERO value of
// their type (errCode(0), a zero struct) - non-nil errors all the same
type errCode int

func (errCode) Error() string { return "injected failure (code 0)" }

type errRec struct{ code int }

func (errRec) Error() string { return "injected failure (zero record)" }

func injected(what string, k int) error {
	switch k % 3 {
	case 1:
		return errCode(0)
	case 2:
		return errRec{}
	}
	return errors.New("injected " + what + " failure")
}

// ---- loaders (not components)
type ldU struct {
	l *alog
	i int
	p APart
}

func (x *ldU) LoadConfig() ([]byte, error) {
	x.l.emit("load", map[string]any{"i": x.i, "ok": !x.p.Fail})
	if x.p.Fail {
		return nil, injected("loader", x.i)
	}
	return []byte(x.p.Doc), nil
}

type ldO struct{ ldU }

func (x *ldO) Order() int { return realOrd(x.p.Ord) }

type ldP struct{ ldO }

func (x *ldP) Priority() {}

// class "mark": carries the Priority marker but has no Order() - not priority-ORDERED, the contract treats it as unordered
type ldM struct { // through the library's embeddable PriorityComponent
	ldU
	definition.PriorityComponent
}

// ---- user post-processors
type ppU struct {
	l    *alog
	i    int
	p    APart
	name string
}

func (x *ppU) Naming() string { return x.name }
func compIdx(name string) int {
	var c int
	if len(name) > 1 && name[0] == 'k' {
		if _, err := fmt.Sscanf(name[1:], "%d", &c); err == nil && fmt.Sprintf("k%03d", c) == name {
			return c
		}
	}
	return 0
}
func (x *ppU) PostProcessBeforeInitialization(c any, name string) (any, error) {
	if k := compIdx(name); k != 0 {
		x.l.emit("before", map[string]any{"c": k, "p": x.i})
	}
	return c, nil
}
// every user processor is a "smart" one too: it is asked for the early reference of a component that closes a cycle
func (x *ppU) PostProcessBeforeInstantiation(m *component_definition.Meta, name string) (any, error) {
	return nil, nil
}
func (x *ppU) PostProcessAfterInstantiation(c any, name string) (bool, error) { return false, nil }
func (x *ppU) PostProcessProperties(ps []*component_definition.Property, c any, name string) ([]*component_definition.Property, error) {
	return nil, nil
}
func (x *ppU) GetEarlyBeanReference(c any, name string) (any, error) {
	if name == "k000" {
		x.l.emit("early", map[string]any{"p": x.i})
	}
	return c, nil
}
func (x *ppU) PostProcessAfterInitialization(c any, name string) (any, error) {
	if k := compIdx(name); k != 0 {
		x.l.emit("after", map[string]any{"c": k, "p": x.i})
	}
	return c, nil
}

type ppO struct{ ppU }

func (x *ppO) Order() int { return realOrd(x.p.Ord) }

type ppP struct{ ppO }

func (x *ppP) Priority() {}

type ppM struct{ ppU }

func (x *ppM) Priority() {}

// ---- runners
type rnU struct {
	l    *alog
	i    int
	p    APart
	name string
}

func (x *rnU) Naming() string { return x.name }
func (x *rnU) Run() error {
	x.l.emit("run", map[string]any{"i": x.i, "ok": !x.p.Fail})
	if x.p.Fail {
		return injected("runner", x.i)
	}
	return nil
}

type rnO struct{ rnU }

// dynReady: set by the Init of the LAST plain component (created after the App and after every runner): an Order() that
// settles during start-up; the contract speaks about the values the runners have when they are sequenced
var (
	dynReady bool
	dynLast  int
)

func (x *rnO) Order() int {
	if x.p.Dyn && !dynReady {
		return realOrd(-x.p.Ord)
	}
	return realOrd(x.p.Ord)
}

type rnP struct{ rnO }

func (x *rnP) Priority() {}

type rnM struct{ rnU }

func (x *rnM) Priority() {}

// ---- runners of field-less types: one per ordering class, their scenario data lives in package variables (the harness runs
// one scenario at a time).  Go gives every zero-size allocation the same address: identity by address must not be used.
var (
	zlog  *alog
	zpart [3]APart
	zidx  [3]int
)

type rnZU struct{}
type rnZO struct{}
type rnZP struct{}

func zrun(k int) error {
	zlog.emit("run", map[string]any{"i": zidx[k], "ok": !zpart[k].Fail})
	if zpart[k].Fail {
		return errors.New("injected runner failure")
	}
	return nil
}
func (*rnZU) Naming() string { return fmt.Sprintf("r%03d", zidx[0]) }
func (*rnZU) Run() error     { return zrun(0) }
func (*rnZO) Naming() string { return fmt.Sprintf("r%03d", zidx[1]) }
func (*rnZO) Run() error     { return zrun(1) }
func (*rnZO) Order() int     { return realOrd(zpart[1].Ord) }
func (*rnZP) Naming() string { return fmt.Sprintf("r%03d", zidx[2]) }
func (*rnZP) Run() error     { return zrun(2) }
func (*rnZP) Order() int     { return realOrd(zpart[2].Ord) }
func (*rnZP) Priority()      {}

// ---- closers
type closerC struct {
	l    *alog
	j    int
	p    APart
	name string
	gate chan struct{}
}

func (x *closerC) Naming() string { return x.name }
func (x *closerC) Close() error {
	x.l.emit("closeBegin", map[string]any{"j": x.j})
	<-x.gate
	x.l.emit("closeEnd", map[string]any{"j": x.j, "ok": !x.p.Fail})
	if x.p.Fail {
		return injected("closer", x.j)
	}
	return nil
}

// ---- loaders and user post-processors of field-less types (one of each; the first marked participant of class "un" takes it)
var (
	zld *ldU
	zpp *ppU
)

type ldZ struct{}

func (*ldZ) LoadConfig() ([]byte, error) { return zld.LoadConfig() }

type ppZ struct{}

func (*ppZ) Naming() string { return zpp.name }
func (*ppZ) PostProcessBeforeInitialization(c any, name string) (any, error) {
	return zpp.PostProcessBeforeInitialization(c, name)
}
func (*ppZ) PostProcessAfterInitialization(c any, name string) (any, error) {
	return zpp.PostProcessAfterInitialization(c, name)
}

// a closer that is LazyInit: nobody but the App's own closer slice asks for it
type closerL struct {
	*closerC
	definition.LazyInitComponent
}

// ---- closers of field-less types (three distinct zero-size types: all of their instances share one address); their scenario
// data lives in package variables like the runners'
var zcl [3]*closerC

type clZA struct{}
type clZB struct{}
type clZC struct{}

func (*clZA) Naming() string { return zcl[0].name }
func (*clZA) Close() error   { return zcl[0].Close() }
func (*clZB) Naming() string { return zcl[1].name }
func (*clZB) Close() error   { return zcl[1].Close() }
func (*clZC) Naming() string { return zcl[2].name }
func (*clZC) Close() error   { return zcl[2].Close() }

// ---- the cycle opener (not one of the K components: its name sorts before k001 and carries index 0) and the first
// component when it closes the cycle
type openerC struct {
	Peer *plainCy `wire:""`
}

func (*openerC) Naming() string { return "k000" }

type plainCy struct {
	plainC
	Back *openerC `wire:""`
}

// ---- plain components
type plainC struct {
	l    *alog
	c    int
	fail bool
	name string
}

func (x *plainC) Naming() string { return x.name }
func (x *plainC) Init() error {
	if x.c == dynLast {
		dynReady = true
	}
	x.l.emit("init", map[string]any{"c": x.c, "ok": !x.fail})
	if x.fail {
		return injected("init", x.c)
	}
	return nil
}

func runAppScenario(sc *AScenario) []map[string]any {
	l := &alog{}
	rnd := rand.New(rand.NewSource(sc.Seed))
	dynReady, dynLast = sc.Comps == 0, sc.Comps
	var comps []any
	var loaders []configure.Loader
	zldUsed, zppUsed := false, false
	for i, p := range sc.Loaders {
		b := ldU{l, i + 1, p}
		switch p.Cls {
		case "prio":
			loaders = append(loaders, &ldP{ldO{b}})
		case "ord":
			loaders = append(loaders, &ldO{b})
		case "mark":
			loaders = append(loaders, &ldM{ldU: b})
		default:
			x := b
			if p.Zero && !zldUsed {
				zldUsed, zld = true, &x
				loaders = append(loaders, &ldZ{})
				continue
			}
			loaders = append(loaders, &x)
		}
	}
	for i, p := range sc.Procs {
		b := ppU{l, i + 1, p, fmt.Sprintf("zp%03d", i+1)}
		switch p.Cls {
		case "prio":
			comps = append(comps, &ppP{ppO{b}})
		case "ord":
			comps = append(comps, &ppO{b})
		case "mark":
			comps = append(comps, &ppM{b})
		default:
			x := b
			if p.Zero && !zppUsed && !sc.Cycle {
				zppUsed, zpp = true, &x
				comps = append(comps, &ppZ{})
				continue
			}
			comps = append(comps, &x)
		}
	}
	zlog = l
	usedZ := [3]bool{}
	for i, p := range sc.Runners {
		b := rnU{l, i + 1, p, fmt.Sprintf("r%03d", i+1)}
		if k := map[string]int{"un": 0, "ord": 1, "prio": 2}[p.Cls]; p.Zero && p.Cls != "mark" && !usedZ[k] {
			usedZ[k], zpart[k], zidx[k] = true, p, i+1
			comps = append(comps, []any{&rnZU{}, &rnZO{}, &rnZP{}}[k])
			continue
		}
		switch p.Cls {
		case "prio":
			comps = append(comps, &rnP{rnO{b}})
		case "ord":
			comps = append(comps, &rnO{b})
		case "mark":
			comps = append(comps, &rnM{b})
		default:
			x := b
			comps = append(comps, &x)
		}
	}
	closers := make([]*closerC, len(sc.Closers))
	nz := 0
	for j, p := range sc.Closers {
		closers[j] = &closerC{l, j + 1, p, fmt.Sprintf("c%03d", j+1), make(chan struct{})}
		if p.Zero && nz < 3 {
			zcl[nz] = closers[j]
			comps = append(comps, []any{&clZA{}, &clZB{}, &clZC{}}[nz])
			nz++
			continue
		}
		if p.Lazy {
			comps = append(comps, &closerL{closerC: closers[j]})
			continue
		}
		comps = append(comps, closers[j])
	}
	for c := 1; c <= sc.Comps; c++ {
		pc := plainC{l, c, sc.InitFail == c, fmt.Sprintf("k%03d", c)}
		if c == 1 && sc.Cycle {
			comps = append(comps, &plainCy{plainC: pc}, &openerC{})
			continue
		}
		x := pc
		comps = append(comps, &x)
	}
	rnd.Shuffle(len(comps), func(a, b int) { comps[a], comps[b] = comps[b], comps[a] })
	cfg := configure.NewConfigure()
	cfg.SetBinder(binder.NewViperBinder("yaml"))
	cfg.SetLoaders(loaders...)
	ap := app.NewApp()
	var err error
	panicked := false
	func() {
		defer func() {
			if x := recover(); x != nil {
				panicked = true
				err = fmt.Errorf("PANIC %v", x)
			}
		}()
		err = ap.Run(app.LogLevel(syslog.LvPanic), app.SetConfigure(cfg), app.SetRegistry(&permSingles{support.NewRegistry(), sc.Seed}),
			app.SetComponents(comps...))
	}()
	l.emit("runReturn", map[string]any{"ok": err == nil, "panic": panicked})
	if err == nil && sc.Restart {
		// "exactly once per start": what the first start left in the App must not be invoked by the second one
		l.emit("restart", nil)
		cfg2 := configure.NewConfigure()
		cfg2.SetBinder(binder.NewViperBinder("yaml"))
		var err2 error
		func() {
			defer func() {
				if x := recover(); x != nil {
					err2 = fmt.Errorf("PANIC %v", x)
				}
			}()
			err2 = ap.Run(app.LogLevel(syslog.LvPanic), app.SetConfigure(cfg2), app.SetRegistry(support.NewRegistry()), app.SetFactory(factory.Default()))
		}()
		l.emit("restartReturn", map[string]any{"ok": err2 == nil})
	}
	if err == nil {
		done := make(chan struct{})
		go func() {
			ap.Close()
			l.emit("closeReturn", nil)
			close(done)
		}()
		allBegun := func() bool {
			for j := range closers {
				if !l.has("closeBegin", "j", j+1) {
					return false
				}
			}
			return true
		}
		returned := func() bool {
			select {
			case <-done:
				return true
			default:
				return false
			}
		}
		// every closer is held on its gate: a Close that does not invoke ALL of them while the others are slow never gets
		// past this wait (3 s, only spent when some closer is not reached); the first gate is opened after it
		for t := 0; t < 3000 && !allBegun() && !returned(); t++ {
			time.Sleep(time.Millisecond)
		}
		// hold every closer a little longer: a Close that does not wait shows as closeReturn before closeEnd
		time.Sleep(2 * time.Millisecond)
		if sc.Hold > 0 && len(closers) > 0 {
			select { // ... or much longer (beyond any plausible "slow closer" threshold)
			case <-done:
			case <-time.After(time.Duration(sc.Hold * float64(time.Second))):
			}
		}
		order := sc.CloseOrder
		if len(order) != len(closers) {
			order = nil
			for j := range closers {
				order = append(order, j+1)
			}
		}
		for _, j := range order {
			close(closers[j-1].gate)
			for t := 0; t < 200 && !l.has("closeEnd", "j", j) && !returned(); t++ {
				time.Sleep(time.Millisecond)
			}
		}
		select {
		case <-done:
		case <-time.After(3 * time.Second):
			l.emit("closeHang", nil)
		}
	}
	hdr := map[string]any{"ev": "scenario", "sc": sc}
	l.mu.Lock()
	defer l.mu.Unlock()
	return append([]map[string]any{hdr}, l.evs...)
}

func cmdApp(in, out string) error {
	fi, err := os.Open(in)
	if err != nil {
		return err
	}
	defer fi.Close()
	fo, err := os.Create(out)
	if err != nil {
		return err
	}
	defer fo.Close()
	w := bufio.NewWriterSize(fo, 1<<20)
	defer w.Flush()
	enc := json.NewEncoder(w)
	sc := bufio.NewScanner(fi)
	sc.Buffer(make([]byte, 1<<20), 1<<24)
	n := 0
	for sc.Scan() {
		line := strings.TrimSpace(sc.Text())
		if line == "" {
			continue
		}
		var s AScenario
		if err := json.Unmarshal([]byte(line), &s); err != nil {
			return fmt.Errorf("scenario %d: %v", n+1, err)
		}
		for _, ev := range runAppScenario(&s) {
			_ = enc.Encode(ev)
		}
		n++
	}
	fmt.Fprintf(os.Stderr, "app: %d scenarios\n", n)
	return sc.Err()
}

// ---- direct binding of the ordering helper: cases exported by TLC (spec/MCOrdering.tla)
type sortCase struct {
	Parts []APart `json:"parts"`
}
type spU struct{ i int }
type spO struct {
	spU
	ord int
}
type spP struct{ spO }

func (x *spO) Order() int { return x.ord }
func (x *spP) Priority()  {}

type spM struct{ spU }

func (x *spM) Priority() {}

// participants of UNCOMPARABLE dynamic types (a slice type, a func type): legitimate implementers of Ordered / Priority
type spS []int // [order, index]

func (x spS) Order() int { return x[0] }
func (x spS) idx() int   { return x[1] }

type spSP []int

func (x spSP) Order() int { return x[0] }
func (x spSP) idx() int   { return x[1] }
func (x spSP) Priority()  {}

type idxer interface{ idx() int }

func (x *spU) idx() int { return x.i }

func cmdSort(in, out string) error {
	fi, err := os.Open(in)
	if err != nil {
		return err
	}
	defer fi.Close()
	fo, err := os.Create(out)
	if err != nil {
		return err
	}
	defer fo.Close()
	w := bufio.NewWriterSize(fo, 1<<20)
	defer w.Flush()
	enc := json.NewEncoder(w)
	sc := bufio.NewScanner(fi)
	sc.Buffer(make([]byte, 1<<20), 1<<24)
	n := 0
	for sc.Scan() {
		var c sortCase
		if err := json.Unmarshal(sc.Bytes(), &c); err != nil {
			return err
		}
		items := make([]any, len(c.Parts))
		for i, p := range c.Parts {
			switch p.Cls {
			case "prio":
				items[i] = &spP{spO{spU{i + 1}, realOrd(p.Ord)}}
				if (i+len(c.Parts))%3 == 0 {
					items[i] = spSP{realOrd(p.Ord), i + 1}
				}
			case "ord":
				items[i] = &spO{spU{i + 1}, realOrd(p.Ord)}
				if (i+len(c.Parts))%3 == 0 {
					items[i] = spS{realOrd(p.Ord), i + 1}
				}
			case "mark":
				items[i] = &spM{spU{i + 1}}
			default:
				items[i] = &spU{i + 1}
			}
		}
		res := []int{}
		func() {
			// a sort that panics on legitimate participants produced no sequence at all: recorded as the empty result
			defer func() { _ = recover() }()
			sorted := framework_helper.SortOrderedComponents(items)
			r := make([]int, len(sorted))
			for i, x := range sorted {
				r[i] = x.(idxer).idx()
			}
			res = r
		}()
		if c.Parts == nil {
			c.Parts = []APart{}
		}
		_ = enc.Encode(map[string]any{"parts": c.Parts, "out": res})
		n++
	}
	fmt.Fprintf(os.Stderr, "sort: %d cases\n", n)
	return sc.Err()
}
