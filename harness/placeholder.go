package main

// Placeholder harness: a holder built with reflect.StructOf carries the generated `value:"..."` tag; a
// wrapped binder logs every Configure.Get(key) - exactly one per rewriting step of spec/Placeholder.tla -
// and an observer processor right after the config-quote processor records the resolved tag text.
// A run that is still asking after `limit` lookups is aborted (sentinel panic) and recorded as such.

import (
	"bufio"
	"encoding/json"
	"fmt"
	"os"
	"reflect"
	"strings"

	"github.com/go-kid/ioc/app"
	"github.com/go-kid/ioc/component_definition"
	"github.com/go-kid/ioc/configure/binder"
	"github.com/go-kid/ioc/configure/loader"
	"github.com/go-kid/ioc/container/processors"
	"github.com/go-kid/ioc/syslog"
	"gopkg.in/yaml.v3"
)

type PHScenario struct {
	ID    string   `json:"id"`
	Text  string   `json:"text"`
	Keys  []string `json:"keys"`
	Vals  []string `json:"vals"`
	Kinds []string `json:"kinds"` // str | emap | elist
	Limit int      `json:"limit"`
}

type logBinder struct {
	*binder.ViperBinder
	keys  []string
	limit int
}

type abortSentinel struct{}

func (b *logBinder) Get(path string) any {
	b.keys = append(b.keys, path)
	if len(b.keys) > b.limit {
		panic(abortSentinel{})
	}
	return b.ViperBinder.Get(path)
}

func chars(s string) []string {
	out := []string{}
	for _, c := range s {
		out = append(out, string(c))
	}
	return out
}

// observer between the config-quote processor (priority order 4) and the expression processor (8)
type phObserver struct {
	processors.DefaultInstantiationAwareComponentPostProcessor
	holder string
	final  *string
	seen   *bool
}

func (o *phObserver) Priority()      {}
func (o *phObserver) Order() int     { return 5 }
func (o *phObserver) Naming() string { return "zz-ph-observer" }
func (o *phObserver) PostProcessAfterInstantiation(c any, name string) (bool, error) {
	return true, nil
}
func (o *phObserver) PostProcessProperties(ps []*component_definition.Property, c any, name string) ([]*component_definition.Property, error) {
	for _, p := range ps {
		if p.Tag == "value" && strings.HasPrefix(name, o.holder) {
			*o.final, *o.seen = p.TagVal, true
		}
	}
	return nil, nil
}

type phHolderName struct{}

func setPath(tree map[string]any, key string, v any) {
	parts := strings.Split(key, ".")
	m := tree
	for _, p := range parts[:len(parts)-1] {
		n, _ := m[p].(map[string]any)
		if n == nil {
			n = map[string]any{}
			m[p] = n
		}
		m = n
	}
	m[parts[len(parts)-1]] = v
}

func runPlaceholder(sc *PHScenario) []map[string]any {
	tree := map[string]any{}
	for i, k := range sc.Keys {
		switch sc.Kinds[i] {
		case "emap":
			setPath(tree, k, map[string]any{})
		case "elist":
			setPath(tree, k, []any{})
		default:
			setPath(tree, k, sc.Vals[i])
		}
	}
	y, _ := yaml.Marshal(tree)
	typ := reflect.StructOf([]reflect.StructField{{Name: "F", Type: reflect.TypeOf(""),
		Tag: reflect.StructTag(fmt.Sprintf(`value:%q`, sc.Text+",required=false"))}})
	v := reflect.New(typ)
	limit := sc.Limit
	if limit == 0 {
		limit = 1200
	}
	lb := &logBinder{ViperBinder: binder.NewViperBinder("yaml"), limit: limit}
	final, seen := "", false
	obs := &phObserver{holder: "struct {", final: &final, seen: &seen}
	status := "ok"
	func() {
		defer func() {
			if x := recover(); x != nil {
				if _, is := x.(abortSentinel); is {
					status = "abort"
				} else {
					status = "panic"
				}
			}
		}()
		ops := []app.SettingOption{app.LogLevel(syslog.LvPanic), app.SetConfigBinder(lb), app.SetComponents(v.Interface(), obs)}
		if len(tree) > 0 {
			ops = append(ops, app.SetConfigLoader(loader.NewRawLoader(y)))
		}
		if err := app.NewApp().Run(ops...); err != nil {
			status = "err"
		}
	}()
	out := []map[string]any{{"ev": "scenario", "id": sc.ID, "text": chars(sc.Text), "raw": sc.Text,
		"keys": charsAll(sc.Keys), "vals": charsAll(sc.Vals), "kinds": sc.Kinds}}
	for _, k := range lb.keys {
		out = append(out, map[string]any{"ev": "get", "key": chars(k)})
	}
	// the status of the placeholder stage: once the observer behind the config-quote processor has run, the
	// resolution itself succeeded, whatever binding the resolved text to the field does afterwards
	run := status
	if seen && status != "abort" && status != "panic" {
		status = "ok"
	}
	out = append(out, map[string]any{"ev": "end", "status": status, "run": run, "final": chars(final), "seen": seen, "field": v.Elem().Field(0).String()})
	return out
}

func charsAll(xs []string) [][]string {
	out := [][]string{}
	for _, x := range xs {
		out = append(out, chars(x))
	}
	return out
}

func cmdPlaceholder(in, out string) error {
	fi, err := os.Open(in)
	if err != nil {
		return err
	}
	defer fi.Close()
	fo, err := os.Create(out)
	if err != nil {
		return err
	}
	defer fo.Close()
	w := bufio.NewWriterSize(fo, 1<<20)
	defer w.Flush()
	enc := json.NewEncoder(w)
	sc := bufio.NewScanner(fi)
	sc.Buffer(make([]byte, 1<<20), 1<<24)
	n := 0
	for sc.Scan() {
		var s PHScenario
		if err := json.Unmarshal(sc.Bytes(), &s); err != nil {
			return err
		}
		for _, e := range runPlaceholder(&s) {
			_ = enc.Encode(e)
		}
		n++
	}
	fmt.Fprintf(os.Stderr, "placeholder: %d scenarios\n", n)
	return sc.Err()
}
