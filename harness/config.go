package main

// Config harness: a real App is started with the scenario's option sequence (real temp files for file
// loaders, raw YAML documents, command-line style arguments); the effective configuration is read back
// through App.Get for every leaf path and through a prefix-bound struct.

import (
	"bufio"
	"encoding/json"
	"fmt"
	"os"
	"path/filepath"
	"strings"

	"github.com/go-kid/ioc/app"
	"github.com/go-kid/ioc/configure"
	"github.com/go-kid/ioc/configure/binder"
	"github.com/go-kid/ioc/configure/loader"
	"github.com/go-kid/ioc/definition"
	"github.com/go-kid/ioc/syslog"
	"gopkg.in/yaml.v3"
)

type CfgOpt struct {
	Kind string   `json:"kind"` // file | add | set
	Lk   string   `json:"lk"`   // file | raw | args
	Keys []string `json:"keys"`
	Val  int      `json:"val"`  // marker value this source supplies for each of its keys (markers may repeat)
	Join bool     `json:"join"` // a further loader of the same variadic Set/AddConfigLoader call as the option before
}
type CfgScenario struct {
	ID   string   `json:"id"`
	Opts []CfgOpt `json:"opts"`
}

var cfgPaths = []string{"a", "b", "c.x", "c.y"}

type cfgBound struct {
	A int `yaml:"a"`
	B int `yaml:"b"`
	C struct {
		X int `yaml:"x"`
		Y int `yaml:"y"`
	} `yaml:"c"`
}
type cfgProps struct {
	V cfgBound `prefix:"root,required=false"`
}

type cfgOrdLoader struct {
	doc []byte
	ord int
}

func (l *cfgOrdLoader) LoadConfig() ([]byte, error) { return l.doc, nil }
func (l *cfgOrdLoader) Order() int                  { return l.ord }

type cfgPrioLoader struct{ *cfgOrdLoader }

func (*cfgPrioLoader) Priority() {}

// a loader that embeds the library's PriorityComponent but has no Order(): not priority-ORDERED, sequenced like the raw ones
type cfgMarkLoader struct {
	definition.PriorityComponent
	doc []byte
}

func (l *cfgMarkLoader) LoadConfig() ([]byte, error) { return l.doc, nil }

func docFor(i int, keys []string, root bool) []byte {
	tree := map[string]any{}
	for _, k := range keys {
		setPath(tree, k, i)
	}
	if root {
		tree = map[string]any{"root": tree}
	}
	y, _ := yaml.Marshal(tree)
	return y
}

func runConfig(sc *CfgScenario, dir string) map[string]any {
	cfg := configure.NewConfigure()
	cfg.SetBinder(binder.NewViperBinder("yaml"))
	ops := []app.SettingOption{app.LogLevel(syslog.LvPanic), app.SetConfigure(cfg)}
	var pend []configure.Loader
	pendKind := ""
	flush := func() {
		if len(pend) == 0 {
			return
		}
		if pendKind == "set" {
			ops = append(ops, app.SetConfigLoader(pend...))
		} else {
			ops = append(ops, app.AddConfigLoader(pend...))
		}
		pend = nil
	}
	for i, o := range sc.Opts {
		var ld configure.Loader
		if o.Kind == "init" {
			flush()
			// an application start in the middle: the shared Configure is initialised with the options so far; the
			// remaining options act on the same Configure and the final start initialises it again
			func() {
				defer func() { _ = recover() }()
				_ = app.NewApp().Run(append(ops, app.SetComponents(&cfgProps{}))...)
			}()
			ops = []app.SettingOption{app.LogLevel(syslog.LvPanic), app.SetConfigure(cfg)}
			continue
		}
		switch o.Lk {
		case "file":
			fn := filepath.Join(dir, fmt.Sprintf("%s-%d.yaml", sc.ID, i+1))
			_ = os.WriteFile(fn, docFor(o.Val, o.Keys, true), 0o644)
			if o.Kind == "file" {
				flush()
				ops = append(ops, app.SetConfig(fn))
				continue
			}
			ld = loader.NewFileLoader(fn)
		case "args":
			var args []string
			for _, k := range o.Keys {
				args = append(args, fmt.Sprintf("--app.config=root.%s=%d", k, o.Val))
			}
			ld = loader.NewArgsLoader(args)
		case "ordm", "ordz", "ordp", "priom", "priop":
			// a user-written loader that declares its own place in the ordering contract
			ord := map[string]int{"ordm": -1, "ordz": 0, "ordp": 1, "priom": -1, "priop": 1}[o.Lk]
			ol := &cfgOrdLoader{doc: docFor(o.Val, o.Keys, true), ord: ord}
			if strings.HasPrefix(o.Lk, "prio") {
				ld = &cfgPrioLoader{ol}
			} else {
				ld = ol
			}
		case "markl":
			ld = &cfgMarkLoader{doc: docFor(o.Val, o.Keys, true)}
		default:
			ld = loader.NewRawLoader(docFor(o.Val, o.Keys, true))
		}
		if !o.Join {
			flush()
			pendKind = o.Kind
		}
		pend = append(pend, ld)
	}
	flush()
	holder := &cfgProps{}
	ops = append(ops, app.SetComponents(holder))
	// the same option sequence, grouped: app.Options(...) applies its members in order
	if h := len(sc.ID) + len(sc.Opts); h%2 == 1 && len(ops) >= 3 {
		k := len(ops) / 2
		ops = []app.SettingOption{app.Options(ops[:k]...), app.Options(app.Options(ops[k:]...))}
	}
	ap := app.NewApp()
	ok, panicked := true, false
	func() {
		defer func() {
			if x := recover(); x != nil {
				panicked, ok = true, false
			}
		}()
		if err := ap.Run(ops...); err != nil {
			ok = false
		}
	}()
	eff := map[string]any{}
	if ok {
		for _, p := range cfgPaths {
			if v := ap.Get("root." + p); v != nil {
				eff[p] = v
			}
		}
	}
	bound := map[string]any{}
	b := holder.V
	for p, v := range map[string]int{"a": b.A, "b": b.B, "c.x": b.C.X, "c.y": b.C.Y} {
		if v != 0 {
			bound[p] = v
		}
	}
	optsOut := make([]map[string]any, len(sc.Opts))
	for i, o := range sc.Opts {
		keys := o.Keys
		if keys == nil {
			keys = []string{}
		}
		optsOut[i] = map[string]any{"kind": o.Kind, "lk": o.Lk, "keys": keys, "val": o.Val, "join": o.Join}
	}
	return map[string]any{"id": sc.ID, "opts": optsOut, "eff": eff, "bound": bound, "ok": ok, "panic": panicked}
}

func cmdConfig(in, out string) error {
	fi, err := os.Open(in)
	if err != nil {
		return err
	}
	defer fi.Close()
	fo, err := os.Create(out)
	if err != nil {
		return err
	}
	defer fo.Close()
	dir, err := os.MkdirTemp(filepath.Dir(out), "cfgfiles")
	if err != nil {
		return err
	}
	defer os.RemoveAll(dir)
	w := bufio.NewWriterSize(fo, 1<<20)
	defer w.Flush()
	enc := json.NewEncoder(w)
	sc := bufio.NewScanner(fi)
	sc.Buffer(make([]byte, 1<<20), 1<<24)
	n := 0
	for sc.Scan() {
		line := strings.TrimSpace(sc.Text())
		if line == "" {
			continue
		}
		var s CfgScenario
		if err := json.Unmarshal([]byte(line), &s); err != nil {
			return err
		}
		_ = enc.Encode(runConfig(&s, dir))
		n++
	}
	fmt.Fprintf(os.Stderr, "config: %d scenarios\n", n)
	return sc.Err()
}
