package main

// Conformance harness for the TLA+ specifications under /verif/spec.  One subcommand per family;
// each reads scenarios (ndjson) and writes a trace (ndjson) of what the real container did.

import (
	"flag"
	"fmt"
	"os"
)

func main() {
	if len(os.Args) < 2 {
		fmt.Fprintln(os.Stderr, "usage: harness <engine|...> [flags]")
		os.Exit(2)
	}
	fs := flag.NewFlagSet(os.Args[1], flag.ExitOnError)
	in := fs.String("in", "", "scenario file (ndjson)")
	out := fs.String("out", "", "trace file (ndjson)")
	names := fs.Int("names", 2, "number of names (cache replay)")
	_ = fs.Parse(os.Args[2:])
	var err error
	switch os.Args[1] {
	case "engine":
		err = cmdEngine(*in, *out)
	case "resolve":
		err = cmdResolve(*in, *out)
	case "app":
		err = cmdApp(*in, *out)
	case "sort":
		err = cmdSort(*in, *out)
	case "syncmap":
		err = cmdSyncMap(*in, *out)
	case "regstress":
		err = cmdRegStress(*in, *out)
	case "race":
		err = cmdRace(*in)
	case "placeholder":
		err = cmdPlaceholder(*in, *out)
	case "config":
		err = cmdConfig(*in, *out)
	case "tags":
		err = cmdTags(*in, *out)
	case "scan":
		err = cmdScan(*in, *out)
	case "values":
		err = cmdValues(*in, *out)
	case "registry":
		err = cmdRegistry(*in, *out)
	case "cache":
		err = cmdCache(*in, *out, *names)
	default:
		err = fmt.Errorf("unknown subcommand %q", os.Args[1])
	}
	if err != nil {
		fmt.Fprintln(os.Stderr, "harness:", err)
		os.Exit(2)
	}
}
