package main

// Value-pipeline harness (C17, C18): holders built with reflect.StructOf carry generated tags.
//   twin     : the same configured value bound by prefix (P), by placeholder (V), by the prop shorthand (Q)
//              and, for strings, written as a literal in the tag (L); each in its own start
//   expr     : value:"#{...}" with placeholders inside, bound into an `any` field
//   validate : value:"${x},validate=..." bound into an int field

import (
	"bufio"
	"encoding/json"
	"fmt"
	"os"
	"reflect"
	"strings"

	"github.com/go-kid/ioc/app"
	"github.com/go-kid/ioc/configure/loader"
	"github.com/go-kid/ioc/syslog"
	"gopkg.in/yaml.v3"
)

type VPCase struct {
	Kind  string            `json:"kind"`
	Class string            `json:"class"`
	FType string            `json:"ftype"`
	YAML  string            `json:"yaml"` // document defining key k (twin), a/b (expr), x (validate)
	Lit   string            `json:"lit"`  // literal text for the L field ("" = none)
	Text  string            `json:"text"`
	Cfg   map[string]string `json:"cfg"`
	Val   string            `json:"val"` // expected (expr) / configured (validate)
	Cons  []VPCons          `json:"cons"`
	Tag   string            `json:"tag"`      // missing: value | prop | prefix
	Req   bool              `json:"required"` // missing: is the point required?
	Pre   bool              `json:"preset"`   // twin: the field holds a value of its type before the start
	Xs    []int             `json:"xs"`       // vslice: the configured list
	Ptr   bool              `json:"ptr"`      // vnest: the nested member is a pointer to a struct
	X     string            `json:"nx"`       // vnest: absent | 0 | 5 (the nested struct's only field)
	VArg  string            `json:"varg"`     // missing: "" = no validate argument, "-" = bare `validate` (struct validation), else the constraints
	Nest  bool              `json:"nest"`     // expr: every placeholder ${a} is written with a computed key, ${${ka}} (ka: a), i.e. nested inside the expression
	Opt   bool              `json:"opt"`      // validate / vslice: the point also says required=false (a bound value is validated all the same)
	Src   string            `json:"src"`      // validate: how the value reaches the point: "" = placeholder ${x}, lit = written in the tag, expr = a placeholder-free expression, phexpr = an expression over the placeholder
}
type VPCons struct {
	K string `json:"k"`
	N int    `json:"n"`
}

// components of the "alias" cases: A binds key k and writes through the bound value in Init; B (created later) binds k again
type aliasAM struct {
	F map[string]any `prefix:"k"`
}
type aliasAL struct {
	F []any `prefix:"k"`
}
type aliasAA struct {
	F any `prefix:"k"`
}
type aliasBM struct {
	P map[string]any `prefix:"k"`
	V map[string]any `value:"${k}"`
}
type aliasBL struct {
	P []any `prefix:"k"`
	V []any `value:"${k}"`
}
type aliasBA struct {
	P any `prefix:"k"`
	V any `value:"${k}"`
}

func scribble(x any) {
	switch v := x.(type) {
	case map[string]any:
		for k, e := range v {
			switch e.(type) {
			case map[string]any, []any:
				scribble(e) // nested maps / lists are written in place
			default:
				v[k] = "scribbled"
			}
		}
		v["zz"] = "scribbled"
	case []any:
		for i, e := range v {
			switch e.(type) {
			case map[string]any, []any:
				scribble(e)
			default:
				v[i] = "scribbled"
			}
		}
	}
}
func (*aliasAM) Naming() string { return "a-alias" }
func (*aliasAL) Naming() string { return "a-alias" }
func (*aliasAA) Naming() string { return "a-alias" }
func (*aliasBM) Naming() string { return "b-alias" }
func (*aliasBL) Naming() string { return "b-alias" }
func (*aliasBA) Naming() string { return "b-alias" }
func (a *aliasAM) Init() error  { scribble(a.F); return nil }
func (a *aliasAL) Init() error  { scribble(a.F); return nil }
func (a *aliasAA) Init() error  { scribble(a.F); return nil }

type vpInner struct {
	A int            `yaml:"a" json:"a"`
	B string         `yaml:"b" json:"b"`
	L []int          `yaml:"l" json:"l"`
	M map[string]any `yaml:"m" json:"m"`
}

var vpTypes = map[string]reflect.Type{
	"string": reflect.TypeOf(""), "int": reflect.TypeOf(0), "float64": reflect.TypeOf(0.0), "bool": reflect.TypeOf(false),
	"strs": reflect.TypeOf([]string{}), "ints": reflect.TypeOf([]int{}), "map": reflect.TypeOf(map[string]any{}),
	"any":  reflect.TypeOf((*any)(nil)).Elem(),
	"pint": reflect.TypeOf((*int)(nil)), "pstr": reflect.TypeOf((*string)(nil)),
	"struct": reflect.TypeOf(vpInner{}), "pstruct": reflect.TypeOf((*vpInner)(nil)),
	"int64": reflect.TypeOf(int64(0)), "int32": reflect.TypeOf(int32(0)), "int8": reflect.TypeOf(int8(0)), "uint16": reflect.TypeOf(uint16(0)),
	"float32": reflect.TypeOf(float32(0)), "puint8": reflect.TypeOf((*uint8)(nil)),
}

// a value the field holds BEFORE the start (constructor defaults): binding must replace it by exactly the configured value
func presetFor(ft string) reflect.Value {
	i, s := 99, "PRESET"
	in := vpInner{A: 99, B: "PRESET", L: []int{91, 92, 93, 94}, M: map[string]any{"zz": "preset", "a": "old"}}
	switch ft {
	case "string":
		return reflect.ValueOf("PRESET")
	case "int":
		return reflect.ValueOf(99)
	case "float64":
		return reflect.ValueOf(9.5)
	case "bool":
		return reflect.ValueOf(true)
	case "strs":
		return reflect.ValueOf([]string{"p1", "p2", "p3", "p4"})
	case "ints":
		return reflect.ValueOf([]int{91, 92, 93, 94})
	case "map":
		return reflect.ValueOf(map[string]any{"zz": "preset", "a": "old"})
	case "any":
		return reflect.ValueOf("PRESET")
	case "pint":
		return reflect.ValueOf(&i)
	case "pstr":
		return reflect.ValueOf(&s)
	case "struct":
		return reflect.ValueOf(in)
	default:
		return reflect.ValueOf(&in)
	}
}

func render(v reflect.Value) string {
	x := v.Interface()
	if x == nil {
		return "<nil>"
	}
	b, err := json.Marshal(x)
	if err != nil {
		return fmt.Sprintf("%T:%v", x, x)
	}
	return fmt.Sprintf("%T:%s", x, b)
}

func jsonOf(x any) string {
	b, err := json.Marshal(x)
	if err != nil {
		return "unmarshalable"
	}
	return string(b)
}

type bound struct {
	ok, panicked bool
	val, js, cfg string
}

// bindOnce starts an App with one holder whose single field F has the given type and tag
func bindOnce(t reflect.Type, tag string, yamlDoc string) (bool, string, bool) {
	b := bindFull(t, tag, yamlDoc, "")
	return b.ok, b.val, b.panicked
}

func bindFull(t reflect.Type, tag string, yamlDoc string, preset string) bound {
	typ := reflect.StructOf([]reflect.StructField{{Name: "F", Type: t, Tag: reflect.StructTag(tag)}})
	v := reflect.New(typ)
	if preset != "" {
		v.Elem().Field(0).Set(presetFor(preset))
	}
	ok, panicked := true, false
	cfg := "-"
	func() {
		defer func() {
			if x := recover(); x != nil {
				ok, panicked = false, true
			}
		}()
		ops := []app.SettingOption{app.LogLevel(syslog.LvPanic), app.SetComponents(v.Interface())}
		if strings.TrimSpace(yamlDoc) != "" {
			ops = append(ops, app.SetConfigLoader(loader.NewRawLoader([]byte(yamlDoc))))
		}
		ap := app.NewApp()
		if err := ap.Run(ops...); err != nil {
			ok = false
		}
		if strings.TrimSpace(yamlDoc) != "" {
			cfg = jsonOf(ap.Get("k"))
		}
	}()
	return bound{ok, panicked, render(v.Elem().Field(0)), jsonOf(v.Elem().Field(0).Interface()), cfg}
}

func runVP(c *VPCase) map[string]any {
	out := map[string]any{"kind": c.Kind}
	switch c.Kind {
	case "twin":
		t := vpTypes[c.FType]
		out["class"], out["ftype"], out["preset"] = c.Class, c.FType, c.Pre
		pre := ""
		if c.Pre {
			pre = c.FType
		}
		resF := func(b bound) map[string]any {
			return map[string]any{"ok": b.ok, "val": b.val, "panic": b.panicked, "json": b.js}
		}
		p := bindFull(t, `prefix:"k"`, c.YAML, pre)
		out["P"], out["cfg"] = resF(p), p.cfg
		out["V"] = resF(bindFull(t, `value:"${k}"`, c.YAML, pre))
		out["Q"] = resF(bindFull(t, `prop:"k"`, c.YAML, pre))
		if c.Lit != "" {
			out["L"] = resF(bindFull(t, fmt.Sprintf(`value:%q`, c.Lit), "", pre))
		} else {
			out["L"] = map[string]any{"ok": false, "val": "-", "panic": false, "json": "-"}
		}
	case "expr":
		doc := fmt.Sprintf("a: %s\nb: %s\n", c.Cfg["a"], c.Cfg["b"])
		text := c.Text
		if c.Nest {
			// the same expression with computed keys: the inner placeholder is resolved first, then the outer one, then the
			// expression is evaluated - the result is the same
			doc += "ka: a\nkb: b\n"
			text = strings.ReplaceAll(strings.ReplaceAll(text, "${a}", "${${ka}}"), "${b}", "${${kb}}")
		}
		et := vpTypes["any"]
		if t, known := vpTypes[c.FType]; known && c.FType != "" {
			et = t // a numeric result bound into a sized / unsigned / float / pointer field
		}
		ok, val, p := bindOnce(et, fmt.Sprintf(`value:%q`, "#{"+text+"}"), doc)
		got := "err"
		if ok {
			got = val[strings.Index(val, ":")+1:]
			var str string
			if strings.HasPrefix(got, "\"") && json.Unmarshal([]byte(got), &str) == nil {
				got = str // a string result: compare its text
			}
		}
		out["text"], out["cfg"], out["want"], out["got"], out["panic"], out["ftype"] = c.Text, c.Cfg, c.Val, got, p, c.FType
		out["nest"] = c.Nest
	case "missing":
		var tag string
		opt := ""
		if !c.Req {
			opt = ",required=false"
		}
		// ... and the point may carry a validate argument: nothing is bound, so there is nothing to validate
		if c.VArg == "-" {
			opt += ",validate"
		} else if c.VArg != "" {
			opt += ",validate=" + c.VArg
		}
		switch c.Tag {
		case "prop":
			tag = fmt.Sprintf(`prop:"nokey%s"`, opt)
		case "prefix":
			tag = fmt.Sprintf(`prefix:"nokey%s"`, opt)
		default:
			tag = fmt.Sprintf(`value:"${nokey}%s"`, opt)
		}
		t := vpTypes[c.FType]
		ok, val, p := bindOnce(t, tag, "other: 1\n")
		zero := reflect.Zero(t)
		out["tag"], out["ftype"], out["required"], out["ok"], out["panic"] = c.Tag, c.FType, c.Req, ok, p
		out["zero"], out["varg"] = val == render(zero), c.VArg
	case "vstruct":
		// a struct bound by prefix whose member carries the constraints; the validate argument on the point switches it on
		var cs []string
		for _, k := range c.Cons {
			if k.K == "required" {
				cs = append(cs, "required")
			} else {
				cs = append(cs, fmt.Sprintf("%s=%d", k.K, k.N))
			}
		}
		inner := reflect.StructOf([]reflect.StructField{{Name: "A", Type: reflect.TypeOf(0),
			Tag: reflect.StructTag(fmt.Sprintf(`yaml:"a" validate:%q`, strings.Join(cs, ",")))}})
		ok, _, p := bindOnce(inner, `prefix:"s,validate"`, "s:\n  a: "+c.Val+"\n")
		cons := c.Cons
		if cons == nil {
			cons = []VPCons{}
		}
		out["x"], out["cons"], out["ok"], out["panic"] = c.Val, cons, ok, p
	case "alias":
		// two components bind the same key; the first one WRITES through its bound map / list in Init.  Bound values are
		// private: the second component and the configuration itself still show the configured value.
		var a, b any
		switch c.FType {
		case "map":
			a, b = &aliasAM{}, &aliasBM{}
		case "anylist":
			a, b = &aliasAL{}, &aliasBL{}
		default:
			a, b = &aliasAA{}, &aliasBA{}
		}
		var want any
		_ = yaml.Unmarshal([]byte(c.YAML), &want)
		if m, ok := want.(map[string]any); ok {
			want = m["k"]
		}
		ok, panicked := true, false
		get := "-"
		func() {
			defer func() {
				if x := recover(); x != nil {
					ok, panicked = false, true
				}
			}()
			ap := app.NewApp()
			if err := ap.Run(app.LogLevel(syslog.LvPanic), app.SetComponents(a, b), app.SetConfigLoader(loader.NewRawLoader([]byte(c.YAML)))); err != nil {
				ok = false
			}
			get = jsonOf(ap.Get("k"))
		}()
		bv := reflect.ValueOf(b).Elem()
		out["ftype"], out["want"], out["ok"], out["panic"] = c.FType, jsonOf(want), ok, panicked
		out["bp"], out["bv"], out["get"] = jsonOf(bv.Field(0).Interface()), jsonOf(bv.Field(1).Interface()), get
	case "vnest":
		// `required` on a NESTED STRUCT member of a validated, prefix-bound struct: violated when the member is unset
		type nestE struct {
			X int `yaml:"x"`
		}
		type nestV struct {
			A int   `yaml:"a"`
			E nestE `yaml:"e" validate:"required"`
		}
		type nestP struct {
			A int    `yaml:"a"`
			E *nestE `yaml:"e" validate:"required"`
		}
		doc := "s:\n  a: 1\n"
		if c.X != "absent" {
			doc += "  e:\n    x: " + c.X + "\n"
		}
		t := reflect.TypeOf(nestV{})
		if c.Ptr {
			t = reflect.TypeOf(nestP{})
		}
		ok, _, p := bindOnce(t, `prefix:"s,validate"`, doc)
		out["ptr"], out["nx"], out["ok"], out["panic"] = c.Ptr, c.X, ok, p
	case "vslice":
		// a list bound through a placeholder; "dive" applies the constraints after it to the elements
		var cs []string
		for _, k := range c.Cons {
			if k.K == "required" || k.K == "omitempty" || k.K == "dive" {
				cs = append(cs, k.K)
			} else {
				cs = append(cs, fmt.Sprintf("%s=%d", k.K, k.N))
			}
		}
		xs := c.Xs
		if xs == nil {
			xs = []int{}
		}
		opt := ""
		if c.Opt {
			opt = ",required=false"
		}
		ok, _, p := bindOnce(vpTypes["ints"], fmt.Sprintf(`value:%q`, "${x}"+opt+",validate="+strings.Join(cs, " ")), "x: "+jsonOf(xs)+"\n")
		out["xs"], out["cons"], out["ok"], out["panic"] = xs, c.Cons, ok, p
	case "validate":
		var cs []string
		for _, k := range c.Cons {
			if k.K == "required" || k.K == "omitempty" {
				cs = append(cs, k.K)
			} else {
				cs = append(cs, fmt.Sprintf("%s=%d", k.K, k.N))
			}
		}
		tag := "${x}"
		switch c.Src {
		case "lit":
			tag = c.Val
		case "expr":
			tag = "#{" + c.Val + "+0}"
		case "phexpr":
			tag = "#{${x}+0}"
		}
		if c.Opt {
			tag += ",required=false"
		}
		if len(cs) > 0 {
			tag += ",validate=" + strings.Join(cs, " ")
		}
		ok, val, p := bindOnce(vpTypes["int"], fmt.Sprintf(`value:%q`, tag), "x: "+c.Val+"\n")
		cons := c.Cons
		if cons == nil {
			cons = []VPCons{}
		}
		out["x"], out["cons"], out["ok"], out["bound"], out["panic"] = c.Val, cons, ok, val[strings.Index(val, ":")+1:], p
		out["src"], out["opt"] = c.Src, c.Opt
	}
	return out
}

func cmdValues(in, out string) error {
	fi, err := os.Open(in)
	if err != nil {
		return err
	}
	defer fi.Close()
	fo, err := os.Create(out)
	if err != nil {
		return err
	}
	defer fo.Close()
	w := bufio.NewWriterSize(fo, 1<<20)
	defer w.Flush()
	enc := json.NewEncoder(w)
	sc := bufio.NewScanner(fi)
	sc.Buffer(make([]byte, 1<<20), 1<<24)
	n := 0
	for sc.Scan() {
		var c VPCase
		if err := json.Unmarshal(sc.Bytes(), &c); err != nil {
			return err
		}
		_ = enc.Encode(runVP(&c))
		n++
	}
	fmt.Fprintf(os.Stderr, "values: %d cases\n", n)
	return sc.Err()
}
