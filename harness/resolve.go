package main

// Resolve harness: one App.Run per scenario of spec/Resolve.tla.  The population is realised with
// the pool types below (their attributes are the table TA of the spec), the holder's injection
// points are wired dynamically, observers at Order 3 and 5 record Property.Injects after
// collection and after further matching, and the holder's fields are read at the end.

import (
	"bufio"
	"encoding/json"
	"fmt"
	"os"
	"reflect"
	"sort"
	"strings"
	"sync"

	"github.com/go-kid/ioc/app"
	"github.com/go-kid/ioc/component_definition"
	"github.com/go-kid/ioc/container"
	"github.com/go-kid/ioc/container/factory"
	"github.com/go-kid/ioc/container/processors"
	"github.com/go-kid/ioc/container/support"
	"github.com/go-kid/ioc/definition"
	"github.com/go-kid/ioc/syslog"
	"github.com/go-kid/ioc/util/framework_helper"
)

// RI is "sealed": next to its exported method it has unexported ones (more methods in total than any implementer
// exports; reflect counts unexported methods for interfaces and exported ones only for concrete types)
type RI interface {
	RIm()
	s1()
	s2()
	s3()
	s4()
	s5()
	s6()
	s7()
	s8()
}
type sealedImpl struct{}

func (sealedImpl) s1() {}
func (sealedImpl) s2() {}
func (sealedImpl) s3() {}
func (sealedImpl) s4() {}
func (sealedImpl) s5() {}
func (sealedImpl) s6() {}
func (sealedImpl) s7() {}
func (sealedImpl) s8() {}

type rbase struct {
	sealedImpl
	id         int
	name, qual string
}

func (b *rbase) Naming() string { return b.name }
func (b *rbase) PID() int       { return b.id }

type pider interface{ PID() int }

// type ids as in Resolve.tla (TA)
type PA struct{ rbase }  // 1 plain
type PB struct{ rbase }  // 2 RI (the pointer type)
type PC struct{ rbase }  // 3 RI Q
type PD struct{ rbase }  // 4 RI Primary
type PE struct{ rbase }  // 5 RI Q Primary
type PF struct{ rbase }  // 6 Q
type PM struct{ rbase }  // 7 RI Mark()
type PQM struct{ rbase } // 8 RI Q Mark()
type PG struct{ rbase }  // 12 Mark()
type PO struct{ rbase }  // 13 RI, Mark() int
type PDM struct{ rbase } // 14 RI Primary Mark()

// field-less components: every zero-size allocation has the same address in Go
type PZ1 struct{ sealedImpl } // 15 RI
type PZ2 struct{ sealedImpl } // 16 RI Mark()
type PZP struct {             // 17 RI Primary (through the library's embeddable WirePrimaryComponent), field-less
	sealedImpl
	definition.WirePrimaryComponent
}
type PZQ struct{ sealedImpl } // 18 RI Q (the constant qualifier "g1"), field-less

func (*PZP) RIm()              {}
func (*PZQ) RIm()              {}
func (*PZQ) Qualifier() string { return "g1" }

func (*PZ1) RIm()  {}
func (*PZ2) RIm()  {}
func (*PZ2) Mark() {}

// Kind() string: for func points with returns=... (types 4 7 -> "A", 5 14 -> "B")
func (*PD) Kind() string  { return "A" }
func (*PM) Kind() string  { return "A" }
func (*PE) Kind() string  { return "B" }
func (*PDM) Kind() string { return "B" }

// Tick(): a second method name for func points (types 4 8 12 13 16)
func (*PD) Tick()  {}
func (*PQM) Tick() {}
func (*PG) Tick()  {}
func (*PO) Tick()  {}
func (*PZ2) Tick() {}

var zeroPID = map[string]int{} // type name -> provider index of the current scenario

func (*PB) RIm()                 {}
func (*PC) RIm()                 {}
func (p *PC) Qualifier() string  { return p.qual }
func (*PD) RIm()                 {}
func (*PD) Primary()             {}
func (*PE) RIm()                 {}
func (p *PE) Qualifier() string  { return p.qual }
func (*PE) Primary()             {}
func (p *PF) Qualifier() string  { return p.qual }
func (*PM) RIm()                 {}
func (*PM) Mark()                {}
func (*PQM) RIm()                {}
func (p *PQM) Qualifier() string { return p.qual }
func (*PQM) Mark()               {}
func (*PG) Mark()                {}
func (*PO) RIm()                 {}
func (*PO) Mark() int            { return 1 }
func (*PDM) RIm()                {}
func (*PDM) Primary()            {}
func (*PDM) Mark()               {}

// the holder's points: three positions x seven kinds (b, c: ARRAY-typed points, which the collectors do not serve: they
// stay as they are, a required one fails start-up)
type hfields struct {
	F1i RI
	F1s []RI
	F1p *PB
	F1q []*PB
	F1a any
	F1b [2]RI
	F1c [1]*PB
	F2i RI
	F2s []RI
	F2p *PB
	F2q []*PB
	F2a any
	F2b [2]RI
	F2c [1]*PB
	F3i RI
	F3s []RI
	F3p *PB
	F3q []*PB
	F3a any
	F3b [2]RI
	F3c [1]*PB
}
type HN struct { // 9 plain holder
	rbase
	hfields
}
type HI struct { // 10 holder implementing RI
	rbase
	hfields
}
type HQM struct { // 11 holder: RI Q Mark()
	rbase
	hfields
}

func (*HI) RIm()                 {}
func (*HQM) RIm()                {}
func (p *HQM) Qualifier() string { return p.qual }
func (*HQM) Mark()               {}

func mkProv(ty, id int, name, qual string) any {
	b := rbase{id: id, name: name, qual: qual}
	switch ty {
	case 1:
		return &PA{b}
	case 2:
		return &PB{b}
	case 3:
		return &PC{b}
	case 4:
		return &PD{b}
	case 5:
		return &PE{b}
	case 6:
		return &PF{b}
	case 7:
		return &PM{b}
	case 8:
		return &PQM{b}
	case 9:
		return &HN{rbase: b}
	case 10:
		return &HI{rbase: b}
	case 11:
		return &HQM{rbase: b}
	case 12:
		return &PG{b}
	case 13:
		return &PO{b}
	case 14:
		return &PDM{b}
	case 15:
		zeroPID["PZ1"] = id
		return &PZ1{}
	case 16:
		zeroPID["PZ2"] = id
		return &PZ2{}
	case 17:
		zeroPID["PZP"] = id
		return &PZP{}
	case 18:
		zeroPID["PZQ"] = id
		return &PZQ{}
	}
	panic("unknown pool type")
}

type RProv struct {
	Ty    int    `json:"ty"`
	Named bool   `json:"named"`
	Q     string `json:"q"`
}
type RPoint struct {
	Kind   string   `json:"kind"` // iface siface ptr sptr any
	Tag    string   `json:"tag"`  // wire func
	ByName int      `json:"byName"`
	Q      []string `json:"q"`
	HasQ   bool     `json:"hasQ"`
	Req    bool     `json:"req"`
	Fn     string   `json:"fn"`  // func points: the requested method (Mark | Tick | Kind)
	Ret    []string `json:"ret"` // func points: values of the returns argument (none = no argument)
}
type RScenario struct {
	ID      string   `json:"id"`
	Prov    []RProv  `json:"prov"` // prov[0] is the holder
	Pts     []RPoint `json:"pts"`
	Order   []int    `json:"order"`   // candidate iteration priority
	Reg     []int    `json:"reg"`     // registration order
	Split   bool     `json:"split"`   // wire even positions through a second tag-scan processor (varies the property order)
	Seed    int64    `json:"seed"`    // permutation of the singleton registry's name enumeration
	Preset  bool     `json:"preset"`  // every point's field holds a sentinel (pid 99, not a registered component) before the start
	Extra   bool     `json:"extra"`   // processors.NewDependencyTypeAwarePostProcessors() is registered next to the default collector
	ViaName bool     `json:"viaName"` // ... under an explicit name of the scanner's choosing (x<i>) instead of the one the component declares (only for providers with a custom name)
	ViaMeta int      `json:"viaMeta"` // provider index (>= 2) registered by a user scanner through DefinitionRegistry.RegisterMeta instead of being handed to the App; 0 = none
}

// a user-written scanner that contributes a component definition of its own through the public registry API
type metaAdder struct {
	obj  any
	name string // "" = under the name the component declares; else an explicit name of the scanner's choosing
	alt  bool
	once sync.Once
}

func (*metaAdder) Naming() string { return "zz-meta-adder" }
func (a *metaAdder) PostProcessDefinitionRegistry(registry container.DefinitionRegistry, component any, name string) error {
	a.once.Do(func() {
		switch {
		case a.name == "":
			registry.RegisterMeta(component_definition.NewMeta(a.obj))
		case a.alt:
			registry.GetMetaOrRegister(a.name, a.obj)
		default:
			m := component_definition.NewMeta(a.obj)
			m.SetName(a.name)
			registry.RegisterMeta(m)
		}
	})
	return nil
}

// the sentinel a preset field holds before the start: never registered, so it can only survive, never be injected
type PSent struct{ rbase }

func (*PSent) RIm() {}

type robs struct {
	processors.DefaultInstantiationAwareComponentPostProcessor
	order  int
	holder string
	stage  string
	log    *[]map[string]any
	names  map[string]int
	fields []string
}

func (o *robs) Order() int     { return o.order }
func (o *robs) Naming() string { return "zz-obs-" + o.stage }
func (o *robs) PostProcessAfterInstantiation(c any, name string) (bool, error) {
	return true, nil
}
func (o *robs) PostProcessProperties(ps []*component_definition.Property, c any, name string) ([]*component_definition.Property, error) {
	if name != o.holder {
		return nil, nil
	}
	byField := map[string][]int{}
	for _, p := range ps {
		if p.PropertyType != component_definition.PropertyTypeComponent {
			continue
		}
		ids := []int{}
		for _, m := range p.Injects {
			if m == nil {
				ids = append(ids, 0)
			} else if id, ok := o.names[m.Name()]; ok {
				ids = append(ids, id)
			} else {
				ids = append(ids, -9) // a component outside the scenario's population
			}
		}
		byField[p.StructField.Name] = ids
	}
	inj := make([][]int, len(o.fields))
	for i, f := range o.fields {
		inj[i] = byField[f]
		if inj[i] == nil {
			inj[i] = []int{}
		}
	}
	*o.log = append(*o.log, map[string]any{"ev": o.stage, "inj": inj})
	return nil, nil
}

type rperm struct {
	container.DefinitionRegistry
	prio map[string]int
}

func (p *rperm) GetMetas(opts ...container.Option) []*component_definition.Meta {
	ms := p.DefinitionRegistry.GetMetas(opts...)
	sort.SliceStable(ms, func(i, j int) bool {
		pi, oki := p.prio[ms[i].Name()]
		pj, okj := p.prio[ms[j].Name()]
		if !oki {
			pi = 1 << 20
		}
		if !okj {
			pj = 1 << 20
		}
		if pi != pj {
			return pi < pj
		}
		return ms[i].Name() < ms[j].Name()
	})
	return ms
}

type rwire struct {
	processors.DefaultTagScanDefinitionRegistryPostProcessor
	name string
}

func (r *rwire) Naming() string { return r.name }

func runResolve(sc *RScenario) []map[string]any {
	var log []map[string]any
	names := map[string]int{}
	prio := map[string]int{}
	comps := make([]any, len(sc.Prov))
	regName := make([]string, len(sc.Prov))
	for i, p := range sc.Prov {
		custom := ""
		if p.Named {
			custom = fmt.Sprintf("p%d", i+1)
		}
		c := mkProv(p.Ty, i+1, custom, p.Q)
		comps[i] = c
		n := framework_helper.GetComponentName(c) // the name the container registers it under
		if sc.ViaName && sc.ViaMeta == i+1 && i >= 1 && p.Named {
			n = fmt.Sprintf("x%d", i+1) // ... unless a scanner registers the definition under a name of its own
		}
		regName[i] = n
		names[n] = i + 1
	}
	for i, id := range sc.Order {
		prio[regName[id-1]] = i
	}
	holderName := regName[0]
	suffix := map[string]string{"iface": "i", "siface": "s", "ptr": "p", "sptr": "q", "any": "a", "aiface": "b", "aptr": "c"}
	fields := []string{}
	tab := map[string][2]string{}
	tab2 := map[string][2]string{}
	for i := range sc.Pts {
		if sc.Pts[i].Fn == "" {
			sc.Pts[i].Fn = "Mark"
		}
		if sc.Pts[i].Ret == nil {
			sc.Pts[i].Ret = []string{}
		}
	}
	for i, pt := range sc.Pts {
		f := fmt.Sprintf("F%d", i+1) + suffix[pt.Kind]
		tag, tv := "wire", ""
		if pt.Tag == "func" {
			tag, tv = "func", "Mark"
			if pt.Fn == "Tick" || pt.Fn == "Kind" {
				tv = pt.Fn
			}
			if len(pt.Ret) > 0 {
				tv += ",returns=" + strings.Join(pt.Ret, " ")
			}
		} else if pt.ByName == -1 {
			tv = "absent"
		} else if pt.ByName > 0 {
			tv = regName[pt.ByName-1]
		}
		if pt.Tag != "func" && sc.Seed%3 == 1 {
			// the name part of the tag is computed: a placeholder that resolves (by its default) to the name, or to nothing for a
			// by-type point - what counts is the tag after resolution, not the tag as written
			tv = "${verif.nokey.f" + fmt.Sprint(i) + ":" + tv + "}"
		}
		if pt.HasQ {
			tv += ",qualifier=" + strings.Join(pt.Q, " ")
		}
		if !pt.Req {
			tv += ",required=false"
		}
		if sc.Split && i%2 == 1 {
			tab2[f] = [2]string{tag, tv}
		} else {
			tab[f] = [2]string{tag, tv}
		}
		fields = append(fields, f)
	}
	mkWire := func(name string, t map[string][2]string) *rwire {
		w := &rwire{name: name}
		w.NodeType = component_definition.PropertyTypeComponent
		// Required is the scanner's default for tags that say nothing: with it unset a point is STILL required unless its tag
		// says required=false explicitly (the harness always writes optional points that way)
		w.Required = sc.Seed%2 == 0
		w.ExtractHandler = func(meta *component_definition.Meta, field *component_definition.Field) (string, string, bool) {
			if meta.Name() == holderName {
				if tv, ok := t[field.StructField.Name]; ok {
					return tv[0], tv[1], true
				}
			}
			return "", "", false
		}
		return w
	}
	if sc.Preset {
		hv0 := reflect.ValueOf(comps[0]).Elem().FieldByName("hfields")
		sent, sentPB := &PSent{rbase{id: 99, name: "sentinel"}}, &PB{rbase{id: 99, name: "sentinel"}}
		for _, fn := range fields {
			fv := hv0.FieldByName(fn)
			switch fn[len(fn)-1] {
			case 'i':
				fv.Set(reflect.ValueOf(RI(sent)))
			case 'a':
				fv.Set(reflect.ValueOf(sent))
			case 'p':
				fv.Set(reflect.ValueOf(sentPB))
			case 's':
				fv.Set(reflect.ValueOf([]RI{sent}))
			case 'q':
				fv.Set(reflect.ValueOf([]*PB{sentPB}))
			case 'b':
				fv.Index(0).Set(reflect.ValueOf(RI(sent)))
			case 'c':
				fv.Index(0).Set(reflect.ValueOf(sentPB))
			}
		}
	}
	w, w2 := mkWire("zz-rwire-a", tab), mkWire("zz-rwire-b", tab2)
	o1 := &robs{order: 3, holder: holderName, stage: "collected", log: &log, names: names, fields: fields}
	o2 := &robs{order: 5, holder: holderName, stage: "filtered", log: &log, names: names, fields: fields}
	f := factory.NewWithRegistries(&rperm{support.DefaultDefinitionRegistry(), prio}, support.DefaultSingletonComponentRegistry())
	var ordered []any
	if len(sc.Reg) == len(comps) {
		for _, id := range sc.Reg {
			if id != sc.ViaMeta {
				ordered = append(ordered, comps[id-1])
			}
		}
	} else {
		for i, c := range comps {
			if i+1 != sc.ViaMeta {
				ordered = append(ordered, c)
			}
		}
	}
	if sc.ViaMeta >= 2 && sc.ViaMeta <= len(comps) {
		ma := &metaAdder{obj: comps[sc.ViaMeta-1], alt: sc.Seed%2 == 0}
		if sc.ViaName && sc.Prov[sc.ViaMeta-1].Named {
			ma.name = regName[sc.ViaMeta-1]
		}
		ordered = append(ordered, ma)
	}
	status := "ok"
	func() {
		defer func() {
			if x := recover(); x != nil {
				status = "panic"
			}
		}()
		extra := []any{w, w2, o1, o2}
		if sc.Extra {
			extra = append(extra, processors.NewDependencyTypeAwarePostProcessors())
		}
		if err := app.NewApp().Run(app.LogLevel(syslog.LvPanic), app.SetRegistry(&permSingles{support.NewRegistry(), sc.Seed}),
			app.SetFactory(f), app.SetComponents(append(ordered, extra...)...)); err != nil {
			status = "err"
		}
	}()
	hv := reflect.ValueOf(comps[0]).Elem().FieldByName("hfields")
	res := make([][]int, len(fields))
	for i, fn := range fields {
		res[i] = []int{}
		fv := hv.FieldByName(fn)
		switch fv.Kind() {
		case reflect.Slice:
			for j := 0; j < fv.Len(); j++ {
				res[i] = append(res[i], pidOf(fv.Index(j).Interface()))
			}
		case reflect.Array:
			for j := 0; j < fv.Len(); j++ {
				if !fv.Index(j).IsNil() {
					res[i] = append(res[i], pidOf(fv.Index(j).Interface()))
				}
			}
		default:
			if !fv.IsNil() {
				res[i] = append(res[i], pidOf(fv.Interface()))
			}
		}
	}
	log = append(log, map[string]any{"ev": "end", "status": status, "res": res})
	return append([]map[string]any{{"ev": "scenario", "sc": sc}}, log...)
}

func pidOf(x any) int {
	switch x.(type) {
	case *PZ1:
		return zeroPID["PZ1"]
	case *PZ2:
		return zeroPID["PZ2"]
	case *PZP:
		return zeroPID["PZP"]
	case *PZQ:
		return zeroPID["PZQ"]
	}
	if p, ok := x.(pider); ok {
		return p.PID()
	}
	return -9
}

func cmdResolve(in, out string) error {
	fi, err := os.Open(in)
	if err != nil {
		return err
	}
	defer fi.Close()
	fo, err := os.Create(out)
	if err != nil {
		return err
	}
	defer fo.Close()
	w := bufio.NewWriterSize(fo, 1<<20)
	defer w.Flush()
	enc := json.NewEncoder(w)
	sc := bufio.NewScanner(fi)
	sc.Buffer(make([]byte, 1<<20), 1<<24)
	n := 0
	for sc.Scan() {
		line := strings.TrimSpace(sc.Text())
		if line == "" {
			continue
		}
		var s RScenario
		if err := json.Unmarshal([]byte(line), &s); err != nil {
			return fmt.Errorf("scenario %d: %v", n+1, err)
		}
		for _, ev := range runResolve(&s) {
			_ = enc.Encode(ev)
		}
		n++
	}
	fmt.Fprintf(os.Stderr, "resolve: %d scenarios\n", n)
	return sc.Err()
}
