package main

// Tag grammar harness: every tag exported by TLC (spec/MCTagGrammar.tla) and seeded longer ones go through the
// real component_definition.NewProperty; the parsed value, argument map and IsRequired are recorded.

import (
	"bufio"
	"encoding/json"
	"fmt"
	"os"
	"reflect"
	"sort"
	"strconv"
	"strings"

	cd "github.com/go-kid/ioc/component_definition"
	"github.com/go-kid/ioc/container/processors"
	"github.com/go-kid/ioc/container/support"
)

// scanRequired: what a real tag scanner (the embeddable DefaultTagScanDefinitionRegistryPostProcessor with a tag of its own)
// makes of the tag on a struct field, with the scanner's Required default unset / set: -1 = no property / panic, else 0 / 1.
// Only an explicit required=false makes a point optional, whatever the scanner's default.
func scanRequired(tag string, def bool) (res int) {
	res = -1
	defer func() { _ = recover() }()
	st := reflect.StructOf([]reflect.StructField{{Name: "F", Type: reflect.TypeOf(""), Tag: reflect.StructTag("x:" + strconv.Quote(tag))}})
	reg := support.DefaultDefinitionRegistry()
	proc := &processors.DefaultTagScanDefinitionRegistryPostProcessor{NodeType: cd.PropertyTypeConfiguration, Tag: "x", Required: def}
	if err := proc.PostProcessDefinitionRegistry(reg, reflect.New(st).Interface(), "c"); err != nil {
		return
	}
	if ps := reg.GetMetaByName("c").GetAllProperties(); len(ps) == 1 {
		res = 0
		if ps[0].IsRequired() {
			res = 1
		}
	}
	return
}

var tgWords = []string{"Required", "required", "Qualifier", "qualifier", "False", "false", "X", "x"}

func tokenize(s string) []string {
	out := []string{}
	for len(s) > 0 {
		matched := false
		for _, w := range tgWords {
			if strings.HasPrefix(s, w) {
				out = append(out, w)
				s = s[len(w):]
				matched = true
				break
			}
		}
		if !matched {
			out = append(out, s[:1])
			s = s[1:]
		}
	}
	return out
}

func cmdTags(in, out string) error {
	fi, err := os.Open(in)
	if err != nil {
		return err
	}
	defer fi.Close()
	fo, err := os.Create(out)
	if err != nil {
		return err
	}
	defer fo.Close()
	w := bufio.NewWriterSize(fo, 1<<20)
	defer w.Flush()
	enc := json.NewEncoder(w)
	sc := bufio.NewScanner(fi)
	sc.Buffer(make([]byte, 1<<20), 1<<24)
	n := 0
	for sc.Scan() {
		var c struct {
			Tag []string `json:"tag"`
		}
		if err := json.Unmarshal(sc.Bytes(), &c); err != nil {
			return err
		}
		if c.Tag == nil {
			c.Tag = []string{}
		}
		tag := strings.Join(c.Tag, "")
		ev := map[string]any{"tag": c.Tag, "panic": false, "value": []string{}, "args": []any{}, "required": true}
		func() {
			defer func() {
				if r := recover(); r != nil {
					ev["panic"] = true
				}
			}()
			p := cd.NewProperty(nil, cd.PropertyTypeComponent, "wire", tag)
			ev["value"] = tokenize(p.TagVal)
			var names []string
			for k := range p.Args() {
				names = append(names, string(k))
			}
			sort.Strings(names)
			args := []any{}
			for _, k := range names {
				vals := [][]string{}
				for _, v := range p.Args()[cd.ArgType(k)] {
					vals = append(vals, tokenize(v))
				}
				args = append(args, map[string]any{"name": tokenize(k), "vals": vals})
			}
			ev["args"] = args
			ev["required"] = p.IsRequired()
		}()
		if n%7 == 0 { // the end-to-end path through a real scanner, for every seventh tag
			ev["scanUnset"], ev["scanSet"] = scanRequired(tag, false), scanRequired(tag, true)
		}
		_ = enc.Encode(ev)
		n++
	}
	fmt.Fprintf(os.Stderr, "tags: %d\n", n)
	return sc.Err()
}
