package main

// Engine harness: drives the REAL container (built from /repo with -tags verif) through one
// App.Run per scenario and records one event per action of spec/Container.tla, each with a
// snapshot of the projected abstract state (L1/L2/L3/in-creation per node, every wired field by
// object identity).  Dynamic wiring goes through the framework's own extension point (a tag-scan
// processor with an ExtractHandler), so one compiled binary realises every graph.

import (
	"bufio"
	"encoding/json"
	"fmt"
	"math/rand"
	"os"
	"reflect"
	"sort"
	"strings"

	"github.com/go-kid/ioc/app"
	"github.com/go-kid/ioc/component_definition"
	"github.com/go-kid/ioc/configure/loader"
	"github.com/go-kid/ioc/container"
	"github.com/go-kid/ioc/container/factory"
	"github.com/go-kid/ioc/container/processors"
	"github.com/go-kid/ioc/container/support"
	"github.com/go-kid/ioc/definition"
	"github.com/go-kid/ioc/syslog"
)

type EngScenario struct {
	ID       string     `json:"id"`
	N        int        `json:"n"`
	Single   [][]int    `json:"single"`
	SelfOpt  []bool     `json:"selfOpt"`
	Slice    [][]int    `json:"slice"`
	SliceOpt []bool     `json:"sliceOpt"`
	Lazy     []int      `json:"lazy"`
	Wrap     []string   `json:"wrap"`
	Fail     []string   `json:"fail"`
	Order    []int      `json:"order"`    // candidate iteration priority (permutation of 1..N)
	RegOrder []int      `json:"regOrder"` // registration order (permutation of 1..N)
	Kinds    [][]string `json:"kinds"`    // realisation of each single edge (filled in by the harness)
	Lookups  []int      `json:"lookups"`  // post-run GetComponentByName calls
	Seed     int64      `json:"seed"`
	Sparse   bool       `json:"sparse"`   // snapshots list only non-empty entries (large N)
	ILook    []int      `json:"ilook"`    // per node: the component its Init() looks up by name through the App (0 = none)
	Procs    []bool     `json:"procs"`    // user post-processors that are components themselves; true = LazyInit
	Mode     []string   `json:"mode"`     // per node: normal | beforeNil | shortcut (lifecycle imposed by the rig processor)
	PlainRig bool       `json:"plainRig"` // no processor of the application implements GetEarlyBeanReference
	Extra    bool       `json:"extra"`    // processors.NewDependencyTypeAwarePostProcessors() registered next to the default collector (no action in the spec)
	Quiet    bool       `json:"quiet"`    // a user instantiation-aware processor ordered FIRST that answers false to PostProcessAfterInstantiation
	Runners  []int      `json:"runners"`  // nodes that are application runners (held by the App's runner slice)
	ROrder   []int      `json:"rorder"`   // the runner nodes in candidate iteration order (computed here from order)
	All      bool       `json:"all"`      // finally look every pool component up through Factory.GetComponents(InterfaceType(Nd))
	RawOrder bool       `json:"rawOrder"` // do not wrap the definition registry: candidates come in the real registry's own order
	Unfit    bool       `json:"unfit"`    // substituted components may be wired through pointer-typed points too (the substitute does not fit such a field)
	Once     []bool     `json:"once"`     // per node: its fault is transient - it fires only while nothing has failed yet in this container
	Prewire  [][]int    `json:"prewire"`  // per node: single-valued targets whose field the user filled by hand (raw object) before the start
	Late     []bool     `json:"late"`     // per node: its slice point is served by a user-written collector that runs after further matching (custom tag, optional)
	Conf     bool       `json:"conf"`     // the start has a configuration document (derived from the seed): the nodes' own value / prop / prefix points
	KSeed    int64      `json:"kseed"`    // seed of the edge realisation (which field / tag form carries each edge); 0 = Seed.
	// The realisation decides the declaration order of a holder's injection points, i.e. it is part of the component SET;
	// permutations of one scenario (C10) keep it fixed and vary Seed / order / regOrder only.
}

// quietProc keeps the library's default answer (false) to PostProcessAfterInstantiation.  That only skips ITS OWN
// PostProcessProperties; every processor sorted behind it must still run.  It is priority-ordered with Order 0, i.e. ahead
// of all built-in processors.
type quietProc struct {
	processors.DefaultInstantiationAwareComponentPostProcessor
}

func (*quietProc) Naming() string { return "zq-quiet" }
func (*quietProc) Priority()      {}
func (*quietProc) Order() int     { return 0 }

// a user processor ordered FIRST that answers true and returns a non-nil but EMPTY property list from PostProcessProperties:
// the container hands every processor the component's own property list; what a processor returns must not make later
// processors lose properties
type partialProc struct {
	processors.DefaultInstantiationAwareComponentPostProcessor
}

func (*partialProc) Naming() string { return "zq-partial" }
func (*partialProc) Priority()      {}
func (*partialProc) Order() int     { return 0 }
func (*partialProc) PostProcessAfterInstantiation(component any, name string) (bool, error) {
	return true, nil
}
func (*partialProc) PostProcessProperties(ps []*component_definition.Property, component any, name string) ([]*component_definition.Property, error) {
	return []*component_definition.Property{}, nil
}

// what the user post-processors depend on: a plain component of its own (not a graph node)
type pdep struct{ inited bool }

func (*pdep) Naming() string { return "zx-pdep" }
func (d *pdep) Init() error  { d.inited = true; return nil }

// a user post-processor with a lifecycle of its own (pass-through callbacks) and injection points of its own: a
// post-processor is a created component like any other, so C05 holds of it too (populated, dependencies first)
type xproc struct {
	e   *env
	p   int
	Dep *pdep  `wire:""`
	Val string `value:"${verif.noSuchKey:pv}"`
}

func (x *xproc) Naming() string { return fmt.Sprintf("zx-proc%d", x.p) }
func (x *xproc) PostProcessBeforeInitialization(c any, name string) (any, error) {
	return c, nil
}
func (x *xproc) PostProcessAfterInitialization(c any, name string) (any, error) {
	return c, nil
}
func (x *xproc) Init() error {
	x.e.emit("procInit", x.p, map[string]any{"populated": x.Dep != nil && x.Val == "pv", "depInited": x.Dep != nil && x.Dep.inited})
	return nil
}

type xprocLazy struct { // lazy through the library's embeddable LazyInitComponent
	xproc
	definition.LazyInitComponent
}

type Nd interface{ NodeID() int }

type base struct {
	e  *env
	id int
}

// configuration values of the node itself (C05: set before the before-initialisation callbacks; they are bound in the same
// container step that resolves the injection points, ahead of every dependency fetch, so also every early reference handed to
// a cycle partner is already configured).  Carried by the slot types 3..K and the generic types; slots 1 and 2 have none, so
// that a component without edges has no property of any kind.
type cfgPart struct {
	ce   *env
	Cfg  string `value:"${verif.cfg:cv}"`
	CfgN int    `prop:"verif.num:7"`
	CfgG cfgGrp `prefix:"verif.grp,required=false"`
}

type cfgGrp struct {
	A int
	B string
}

func (b *cfgPart) setCfgEnv(e *env) { b.ce = e }

// cfgOK: the node's configuration values are exactly what this scenario's configuration (or the defaults) prescribe
func (b *cfgPart) cfgOK() bool {
	if b.ce.sc.Conf {
		return b.Cfg == "conf" && b.CfgN == 9 && b.CfgG == cfgGrp{3, "g"}
	}
	return b.Cfg == "cv" && b.CfgN == 7 && b.CfgG == cfgGrp{}
}

func (b *base) NodeID() int               { return b.id }
func (b *base) Naming() string            { return nodeName(b.id) }
func (b *base) Qualifier() string         { return fmt.Sprintf("q%d", b.id) }
func (b *base) AfterPropertiesSet() error { return b.e.cb("aps", b.id) }
func (b *base) Init() error {
	// a service-locator call from inside the initialisation callback: the target may be lazy and may depend back on this
	// component, which closes a cycle during initialisation rather than population
	if il := b.e.sc.ILook; len(il) >= b.id && il[b.id-1] != 0 && b.e.ap != nil {
		c, err := b.e.ap.GetComponentByName(nodeName(il[b.id-1]))
		if err != nil {
			return err
		}
		// what the lookup handed out DURING the start (possibly the early reference of a component still in creation)
		b.e.emit("ilooked", b.id, map[string]any{"t": il[b.id-1], "res": b.e.objVer(c)})
	}
	return b.e.cb("init", b.id)
}

func nodeName(id int) string { return fmt.Sprintf("n%04d", id) }

type wrapper struct {
	Nd
	tag string
}

type fieldAssign struct {
	field  string
	target int
}

type env struct {
	sc         *EngScenario
	events     []map[string]any
	objs       []any // index 1..N: the registered raw object
	objTag     map[any]string
	objNode    map[any]int
	metaKind   map[*component_definition.Meta]string
	reg        container.SingletonComponentRegistry
	earlyRan   []int
	earlyTotal []int
	assign     [][]fieldAssign // per holder: single-valued field assignments
	creating   map[int]bool
	lastWe     map[int]any
	aborted    bool
	ap         *app.App
	failedEver bool // a creation has returned an error / an early-reference factory has failed (as Container.tla's failedEver)
	defs       container.DefinitionRegistry
	lateOf     map[string][]int // holder name -> the targets its user-written collector hands in (the holder included when listed)
}

type reentry struct{ n int }

// faulty: does the injected fault `tag` of node id fire now?  (a transient one only while nothing has failed yet)
func (e *env) faulty(id int, tag string) bool {
	return e.sc.Fail[id-1] == tag && (!e.sc.Once[id-1] || !e.failedEver)
}

func (e *env) cb(ev string, id int) error {
	fail := e.faulty(id, ev)
	x := map[string]any{"ok": !fail}
	if c, ok := e.objs[id].(interface{ cfgOK() bool }); ok {
		x["cfg"] = c.cfgOK()
	}
	e.emit(ev, id, x)
	if fail {
		if id%2 == 0 {
			return engErr(0) // a value-typed error whose value is the zero value of its type: a non-nil error all the same
		}
		return fmt.Errorf("injected failure %s n%d", ev, id)
	}
	return nil
}

type engErr int

func (engErr) Error() string { return "injected failure (code 0)" }

func (e *env) idOf(name string) int {
	if len(name) == 5 && name[0] == 'n' {
		var id int
		if _, err := fmt.Sscanf(name[1:], "%d", &id); err == nil && id >= 1 && id <= e.sc.N && nodeName(id) == name {
			return id
		}
	}
	return 0
}

func noV() map[string]any { return map[string]any{"n": 0, "k": "none", "o": "none"} }
func noO() map[string]any { return map[string]any{"n": 0, "o": "none"} }

func (e *env) ver(m *component_definition.Meta) map[string]any {
	if m == nil {
		return noV()
	}
	k, ok := e.metaKind[m]
	if !ok {
		if e.objTag[m.Raw] == "raw" {
			k = "raw"
		} else {
			k = "afterP"
		}
	}
	o, known := e.objTag[m.Raw]
	if !known {
		o = "unknown"
	}
	return map[string]any{"n": e.objNode[m.Raw], "k": k, "o": o}
}

func (e *env) objVer(x any) map[string]any {
	if x == nil {
		return noO()
	}
	v := reflect.ValueOf(x)
	if (v.Kind() == reflect.Ptr || v.Kind() == reflect.Interface) && v.IsNil() {
		return noO()
	}
	o, known := e.objTag[x]
	if !known {
		// a copy or an object the harness never handed out
		return map[string]any{"n": -1, "o": "unknown"}
	}
	return map[string]any{"n": e.objNode[x], "o": o}
}

func (e *env) snapshot() map[string]any {
	N := e.sc.N
	l3, inCr := []int{}, []int{}
	if e.sc.Sparse {
		l1, l2 := []any{}, []any{}
		fS, fL := []any{}, []any{}
		for i := 1; i <= N; i++ {
			a, b, c, d, _ := support.VerifLevels(e.reg, nodeName(i))
			if a != nil {
				l1 = append(l1, e.ver(a))
			}
			if b != nil {
				l2 = append(l2, e.ver(b))
			}
			if c {
				l3 = append(l3, i)
			}
			if d {
				inCr = append(inCr, i)
			}
			rv := reflect.ValueOf(e.objs[i]).Elem()
			for _, fa := range e.assign[i] {
				f := rv.FieldByName(fa.field)
				if !f.IsNil() {
					fS = append(fS, map[string]any{"h": i, "t": fa.target, "v": e.objVer(f.Interface())})
				}
			}
			lf := rv.FieldByName("L")
			for j := 0; j < lf.Len(); j++ {
				fL = append(fL, map[string]any{"h": i, "i": j + 1, "v": e.objVer(lf.Index(j).Interface())})
			}
		}
		return map[string]any{"L1": l1, "L2": l2, "L3": l3, "inCr": inCr, "fS": fS, "fL": fL}
	}
	l1, l2 := make([]any, N), make([]any, N)
	fS := make([][]any, N)
	fL := make([][]any, N)
	for i := 1; i <= N; i++ {
		a, b, c, d, _ := support.VerifLevels(e.reg, nodeName(i))
		l1[i-1], l2[i-1] = e.ver(a), e.ver(b)
		if c {
			l3 = append(l3, i)
		}
		if d {
			inCr = append(inCr, i)
		}
		row := make([]any, N)
		for t := 1; t <= N; t++ {
			row[t-1] = noO()
		}
		rv := reflect.ValueOf(e.objs[i]).Elem()
		for _, fa := range e.assign[i] {
			f := rv.FieldByName(fa.field)
			if !f.IsNil() {
				row[fa.target-1] = e.objVer(f.Interface())
			}
		}
		fS[i-1] = row
		fL[i-1] = []any{}
		lf := rv.FieldByName("L")
		for j := 0; j < lf.Len(); j++ {
			fL[i-1] = append(fL[i-1], e.objVer(lf.Index(j).Interface()))
		}
	}
	return map[string]any{"L1": l1, "L2": l2, "L3": l3, "inCr": inCr, "fS": fS, "fL": fL}
}

func (e *env) emit(ev string, n int, extra map[string]any) {
	m := map[string]any{"ev": ev, "n": n, "st": e.snapshot()}
	for k, v := range extra {
		m[k] = v
	}
	e.events = append(e.events, m)
}

// ---- tracing registry: one event per interface call, logged after the call returns
type traceReg struct {
	e     *env
	inner container.SingletonComponentRegistry
}

func (t *traceReg) AddSingleton(name string, meta *component_definition.Meta) {
	t.inner.AddSingleton(name, meta)
}
func (t *traceReg) AddSingletonFactory(name string, m container.SingletonFactory) {
	id := t.e.idOf(name)
	t.inner.AddSingletonFactory(name, container.FuncSingletonFactory(func() (*component_definition.Meta, error) {
		mm, err := m.GetComponent()
		if id != 0 {
			t.e.earlyRan[id-1]++
			t.e.earlyTotal[id-1]++
			if mm != nil && t.e.objTag[mm.Raw] != "raw" {
				t.e.metaKind[mm] = "earlyP"
			}
		}
		return mm, err
	}))
	if id != 0 {
		t.e.emit("addFactory", id, nil)
	}
}
func (t *traceReg) GetSingleton(name string, early bool) (*component_definition.Meta, error) {
	id := t.e.idOf(name)
	before := 0
	if id != 0 {
		before = t.e.earlyTotal[id-1]
	}
	m, err := t.inner.GetSingleton(name, early)
	if id != 0 && err != nil {
		t.e.failedEver = true
	}
	if id != 0 {
		ev := "get"
		if !early {
			ev = "getNoEarly"
		}
		t.e.emit(ev, id, map[string]any{"res": t.e.ver(m), "err": err != nil, "ran": t.e.earlyTotal[id-1] != before})
	}
	return m, err
}
func (t *traceReg) RemoveSingleton(name string) { t.inner.RemoveSingleton(name) }
func (t *traceReg) GetSingletonOrCreateByFactory(name string, f container.SingletonFactory) (*component_definition.Meta, error) {
	id := t.e.idOf(name)
	m, err := t.inner.GetSingletonOrCreateByFactory(name, container.FuncSingletonFactory(func() (*component_definition.Meta, error) {
		if id != 0 {
			if t.e.creating[id] {
				// re-entrant creation of a component that is already being created: the cycle is not
				// broken.  Record it and unwind instead of overflowing the Go stack.
				t.e.emit("reentry", id, nil)
				t.e.aborted = true
				panic(reentry{id})
			}
			t.e.creating[id] = true
			defer delete(t.e.creating, id)
			t.e.earlyRan[id-1] = 0
			delete(t.e.lastWe, id)
			t.e.emit("createBegin", id, nil)
		}
		return f.GetComponent()
	}))
	if id != 0 {
		if err != nil {
			t.e.failedEver = true
		}
		t.e.emit("createEnd", id, map[string]any{"ok": err == nil, "res": t.e.ver(m)})
	}
	return m, err
}
func (t *traceReg) IsSingletonCurrentlyInCreation(name string) bool {
	return t.inner.IsSingletonCurrentlyInCreation(name)
}

// ---- candidate order permuter (drives "all iteration orders" deterministically)
type permReg struct {
	container.DefinitionRegistry
	e *env
}

func (p *permReg) GetMetas(opts ...container.Option) []*component_definition.Meta {
	ms := p.DefinitionRegistry.GetMetas(opts...)
	prio := func(m *component_definition.Meta) int {
		if id := p.e.idOf(m.Name()); id != 0 {
			for i, x := range p.e.sc.Order {
				if x == id {
					return i
				}
			}
		}
		return 1 << 20
	}
	sort.SliceStable(ms, func(i, j int) bool {
		pi, pj := prio(ms[i]), prio(ms[j])
		if pi != pj {
			return pi < pj
		}
		return ms[i].Name() < ms[j].Name()
	})
	return ms
}

// ---- singleton registry wrapper: permutes GetSingletonNames
type permSingles struct {
	container.SingletonRegistry
	seed int64
}

func (p *permSingles) GetSingletonNames() []string {
	names := p.SingletonRegistry.GetSingletonNames()
	sort.Strings(names)
	r := rand.New(rand.NewSource(p.seed))
	r.Shuffle(len(names), func(i, j int) { names[i], names[j] = names[j], names[i] })
	return names
}

// ---- wiring + observer + actor processor (one user component)
type rigCore struct {
	processors.DefaultTagScanDefinitionRegistryPostProcessor
	processors.DefaultInstantiationAwareComponentPostProcessor
	e *env
}

func (r *rigCore) Naming() string { return "zz-rig" }

// rig is the "smart" processor (it is asked for early references); with sc.PlainRig the plain rigCore is registered
// instead, so that NO processor of the application implements GetEarlyBeanReference (only where no component is
// substituted at early-reference time)
type rig struct{ *rigCore }

func (r *rigCore) PostProcessAfterInstantiation(component any, name string) (bool, error) {
	return true, nil
}
func (r *rigCore) PostProcessProperties(ps []*component_definition.Property, component any, name string) ([]*component_definition.Property, error) {
	if id := r.e.idOf(name); id != 0 {
		// the user-written collector of "late" points: this processor is unordered, i.e. it runs after the library's
		// collectors and after further matching; it hands in the definitions of the scenario's targets in enumeration order
		for _, p := range ps {
			if p.Tag == "late" && r.e.defs != nil {
				p.Injects = nil
				for _, m := range r.e.defs.GetMetas() {
					if t := r.e.idOf(m.Name()); t != 0 && contains(r.e.lateOf[name], t) {
						p.Injects = append(p.Injects, m)
					}
				}
			}
		}
		fail := r.e.faulty(id, "resolve")
		r.e.emit("resolve", id, map[string]any{"ok": !fail})
		if fail {
			return nil, fmt.Errorf("injected resolve failure n%d", id)
		}
	}
	return nil, nil
}
func (r *rigCore) PostProcessBeforeInitialization(c any, name string) (any, error) {
	if id := r.e.idOf(name); id != 0 {
		if err := r.e.cb("before", id); err != nil {
			return nil, err
		}
		if r.e.sc.Mode[id-1] == "beforeNil" {
			return nil, nil
		}
	}
	return c, nil
}
func (r *rigCore) PostProcessBeforeInstantiation(m *component_definition.Meta, name string) (any, error) {
	if id := r.e.idOf(name); id != 0 && r.e.sc.Mode[id-1] == "shortcut" {
		r.e.emit("binst", id, nil)
		return m.Raw, nil
	}
	return nil, nil
}
func (r *rigCore) PostProcessAfterInitialization(c any, name string) (any, error) {
	id := r.e.idOf(name)
	if id == 0 {
		return c, nil
	}
	if err := r.e.cb("after", id); err != nil {
		return nil, err
	}
	e := r.e
	mk := func(tag string) any {
		w := &wrapper{c.(Nd), tag}
		e.objTag[w], e.objNode[w] = tag, id
		return w
	}
	switch e.sc.Wrap[id-1] {
	case "after", "bothDiff":
		return mk("Wa"), nil
	case "bothSame":
		if w, ok := e.lastWe[id]; ok {
			return w, nil
		}
		return mk("We"), nil
	case "spring":
		if e.earlyRan[id-1] > 0 {
			return c, nil
		}
		return mk("We"), nil
	}
	return c, nil
}
func (r *rig) GetEarlyBeanReference(c any, name string) (any, error) {
	id := r.e.idOf(name)
	if id == 0 {
		return c, nil
	}
	if r.e.faulty(id, "early") {
		return nil, fmt.Errorf("injected early failure")
	}
	switch r.e.sc.Wrap[id-1] {
	case "early", "bothDiff", "bothSame", "spring":
		// every call makes a new object, so an early-reference factory that runs twice within one
		// creation attempt is visible as a second, distinct early wrapper ("We2")
		tag := "We"
		if r.e.earlyRan[id-1] > 0 {
			tag = "We2"
		}
		w := &wrapper{c.(Nd), tag}
		r.e.lastWe[id] = w
		r.e.objTag[w], r.e.objNode[w] = tag, id
		return w, nil
	}
	return c, nil
}

func contains(xs []int, x int) bool {
	for _, y := range xs {
		if y == x {
			return true
		}
	}
	return false
}

// chooseKinds picks a concrete realisation for every single-valued edge.
func chooseKinds(sc *EngScenario, rnd *rand.Rand) {
	if sc.Kinds != nil {
		return
	}
	sc.Kinds = make([][]string, sc.N)
	for h := 1; h <= sc.N; h++ {
		ks := make([]string, len(sc.Single[h-1]))
		for i, t := range sc.Single[h-1] {
			opts := []string{"name-iface"}
			if t <= poolK && (sc.Wrap[t-1] == "none" || sc.Unfit) && h <= poolK && !contains(sc.Runners, t) && !contains(sc.Runners, h) {
				opts = append(opts, "name-ptr", "type-ptr")
			}
			ks[i] = opts[rnd.Intn(len(opts))]
		}
		sc.Kinds[h-1] = ks
	}
}

func runEngScenario(sc *EngScenario) []map[string]any {
	if sc.KSeed == 0 {
		sc.KSeed = sc.Seed
	}
	rnd := rand.New(rand.NewSource(sc.KSeed))
	sc.Conf = sc.Seed%2 == 1
	if len(sc.Late) != sc.N {
		sc.Late = make([]bool, sc.N)
	}
	if len(sc.Once) != sc.N {
		sc.Once = make([]bool, sc.N)
	}
	if len(sc.Prewire) != sc.N {
		sc.Prewire = make([][]int, sc.N)
	}
	for i := range sc.Prewire {
		if sc.Prewire[i] == nil {
			sc.Prewire[i] = []int{}
		}
	}
	if sc.Runners == nil {
		sc.Runners = []int{}
	}
	sc.ROrder = []int{}
	for _, x := range sc.Order {
		if contains(sc.Runners, x) {
			sc.ROrder = append(sc.ROrder, x)
		}
	}
	chooseKinds(sc, rnd)
	e := &env{sc: sc, objTag: map[any]string{}, objNode: map[any]int{}, metaKind: map[*component_definition.Meta]string{},
		earlyRan: make([]int, sc.N), earlyTotal: make([]int, sc.N), creating: map[int]bool{}, lastWe: map[int]any{}, lateOf: map[string][]int{}}
	e.objs = make([]any, sc.N+1)
	e.assign = make([][]fieldAssign, sc.N+1)
	comps := make([]any, sc.N+1)
	tab := map[string]map[string]string{}
	allNodes := true
	for i := 1; i <= sc.N; i++ {
		c, b := newPoolNode(i, contains(sc.Lazy, i), contains(sc.Runners, i))
		b.e, b.id = e, i
		if cc, ok := c.(interface{ setCfgEnv(*env) }); ok {
			cc.setCfgEnv(e)
		}
		e.objs[i], comps[i] = c, c
		e.objTag[c], e.objNode[c] = "raw", i
	}
	for i := 1; i <= sc.N; i++ {
		fields := map[string]string{}
		sUsed := 0
		for si, t := range sc.Single[i-1] {
			opt := ""
			if t == i && sc.SelfOpt[i-1] {
				opt = ",required=false"
			}
			var fname, tag string
			switch sc.Kinds[i-1][si] {
			case "name-ptr", "type-ptr":
				if contains(sc.Lazy, t) {
					fname = fmt.Sprintf("Q%d", t)
				} else {
					fname = fmt.Sprintf("P%d", t)
				}
				if sc.Kinds[i-1][si] == "name-ptr" {
					tag = nodeName(t) + opt
				} else {
					tag = opt
				}
			default:
				sUsed++
				fname = fmt.Sprintf("S%d", sUsed)
				tag = nodeName(t) + opt
			}
			fields[fname] = tag
			e.assign[i] = append(e.assign[i], fieldAssign{fname, t})
		}
		if len(sc.Slice[i-1]) > 0 && sc.Late[i-1] {
			sc.SliceOpt[i-1] = true
			fields["L"] = "late:,required=false"
			e.lateOf[nodeName(i)] = sc.Slice[i-1]
		} else if len(sc.Slice[i-1]) > 0 {
			opt := ""
			if sc.SliceOpt[i-1] {
				opt = ",required=false"
			}
			allNodes = len(sc.Slice[i-1]) == sc.N
			if allNodes && rnd.Intn(2) == 0 {
				fields["L"] = opt // by interface type: every pool node implements Nd
			} else {
				var qs []string
				for _, t := range sc.Slice[i-1] {
					qs = append(qs, fmt.Sprintf("q%d", t))
				}
				fields["L"] = ",qualifier=" + strings.Join(qs, " ") + opt
			}
		}
		tab[nodeName(i)] = fields
	}
	// fields the user wired by hand before the start (must not influence anything)
	for i := 1; i <= sc.N; i++ {
		rv := reflect.ValueOf(comps[i]).Elem()
		for _, fa := range e.assign[i] {
			if fa.target != i && contains(sc.Prewire[i-1], fa.target) {
				if f := rv.FieldByName(fa.field); f.IsValid() && f.CanSet() && reflect.TypeOf(comps[fa.target]).AssignableTo(f.Type()) {
					f.Set(reflect.ValueOf(comps[fa.target]))
				}
			}
		}
	}
	r := &rigCore{e: e}
	r.NodeType = component_definition.PropertyTypeComponent
	r.Required = sc.Seed%4 != 3 // unset now and then: a tag without a required argument is required all the same
	r.ExtractHandler = func(meta *component_definition.Meta, field *component_definition.Field) (string, string, bool) {
		if m, ok := tab[meta.Name()]; ok {
			if tv, ok := m[field.StructField.Name]; ok {
				if strings.HasPrefix(tv, "late:") {
					return "late", tv[5:], true
				}
				return "wire", tv, true
			}
		}
		return "", "", false
	}
	inner := support.DefaultSingletonComponentRegistry()
	e.reg = inner
	var defReg container.DefinitionRegistry = &permReg{support.DefaultDefinitionRegistry(), e}
	if sc.RawOrder {
		defReg = support.DefaultDefinitionRegistry()
	}
	e.defs = defReg
	f := factory.NewWithRegistries(defReg, &traceReg{e, inner})
	ap := app.NewApp()
	e.ap = ap
	var ordered []any
	if len(sc.RegOrder) == sc.N {
		for _, i := range sc.RegOrder {
			ordered = append(ordered, comps[i])
		}
	} else {
		ordered = append(ordered, comps[1:]...)
	}
	if sc.PlainRig {
		ordered = append(ordered, r)
	} else {
		ordered = append(ordered, &rig{r})
	}
	if sc.Procs == nil {
		sc.Procs = []bool{}
	}
	if len(sc.Mode) != sc.N {
		sc.Mode = make([]string, sc.N)
		for i := range sc.Mode {
			sc.Mode[i] = "normal"
		}
	}
	if sc.Quiet {
		ordered = append(ordered, &quietProc{})
	} else if sc.Seed%3 == 0 {
		ordered = append(ordered, &partialProc{})
	}
	if sc.Extra {
		ordered = append(ordered, processors.NewDependencyTypeAwarePostProcessors())
	}
	for i, lazy := range sc.Procs {
		if lazy {
			ordered = append(ordered, &xprocLazy{xproc: xproc{e: e, p: i + 1}})
		} else {
			ordered = append(ordered, &xproc{e: e, p: i + 1})
		}
	}
	if len(sc.Procs) > 0 {
		ordered = append(ordered, &pdep{})
	}
	var err error
	panicked := false
	func() {
		defer func() {
			if x := recover(); x != nil {
				if _, isReentry := x.(reentry); !isReentry {
					panicked = true
				}
				err = fmt.Errorf("PANIC %v", x)
			}
		}()
		ops := []app.SettingOption{app.LogLevel(syslog.LvPanic), app.SetRegistry(&permSingles{support.NewRegistry(), sc.Seed}),
			app.SetFactory(f), app.SetComponents(ordered...)}
		if sc.Conf {
			ops = append(ops, app.SetConfigLoader(loader.NewRawLoader([]byte("verif:\n  cfg: conf\n  num: 9\n  grp:\n    a: 3\n    b: g\n"))))
		}
		err = ap.Run(ops...)
	}()
	e.emit("runReturn", 0, map[string]any{"ok": err == nil, "panic": panicked})
	if !e.aborted {
		for _, id := range sc.Lookups {
			func() {
				defer func() {
					if x := recover(); x != nil {
						e.emit("lookupPanic", id, nil)
					}
				}()
				c, lerr := ap.GetComponentByName(nodeName(id))
				e.emit("lookupReturn", id, map[string]any{"ok": lerr == nil, "res": e.objVer(c)})
			}()
		}
	}
	if sc.All && !e.aborted && err == nil {
		func() {
			defer func() {
				if x := recover(); x != nil {
					e.emit("lookupPanic", 0, nil)
				}
			}()
			// GetComponents looks every matching DEFINITION up by name (creating lazy ones on the way)
			cs, lerr := ap.GetComponents(container.InterfaceType(reflect.TypeOf((*Nd)(nil)).Elem()))
			res := []any{}
			for _, c := range cs {
				res = append(res, e.objVer(c))
			}
			e.emit("lookupAll", 0, map[string]any{"ok": lerr == nil, "res": res})
		}()
	}
	hdr := map[string]any{"ev": "scenario", "sc": sc}
	return append([]map[string]any{hdr}, e.events...)
}

func cmdEngine(in, out string) error {
	fi, err := os.Open(in)
	if err != nil {
		return err
	}
	defer fi.Close()
	fo, err := os.Create(out)
	if err != nil {
		return err
	}
	defer fo.Close()
	w := bufio.NewWriterSize(fo, 1<<20)
	defer w.Flush()
	enc := json.NewEncoder(w)
	sc := bufio.NewScanner(fi)
	sc.Buffer(make([]byte, 1<<20), 1<<26)
	n, events := 0, 0
	for sc.Scan() {
		line := strings.TrimSpace(sc.Text())
		if line == "" {
			continue
		}
		var s EngScenario
		if err := json.Unmarshal([]byte(line), &s); err != nil {
			return fmt.Errorf("scenario %d: %v", n+1, err)
		}
		for _, ev := range runEngScenario(&s) {
			if err := enc.Encode(ev); err != nil {
				return err
			}
			events++
		}
		n++
	}
	fmt.Fprintf(os.Stderr, "engine: %d scenarios, %d events\n", n, events)
	return sc.Err()
}
