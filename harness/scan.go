package main

// Tag-scan harness: struct shapes exported by TLC (spec/MCScan.tla) are built with reflect.StructOf
// (compile-time blocks where an unexported field is needed), started as the only user component next to a
// recording processor for the custom tag, and every leaf's value is read back after Run.

import (
	"bufio"
	"encoding/json"
	"fmt"
	"os"
	"reflect"
	"strings"

	"github.com/go-kid/ioc/app"
	"github.com/go-kid/ioc/component_definition"
	"github.com/go-kid/ioc/configure/loader"
	"github.com/go-kid/ioc/container/processors"
	"github.com/go-kid/ioc/syslog"
	"gopkg.in/yaml.v3"
)

type ShapeNode struct {
	K    string      `json:"k"`
	Tag  string      `json:"tag"`
	Anon bool        `json:"anon"`
	Ptr  bool        `json:"ptr"`
	Exp  bool        `json:"exp"`
	ID   int         `json:"id"`
	Kids []ShapeNode `json:"kids"`
}

func isBlock(n *ShapeNode) bool {
	return n.K == "struct" && len(n.Kids) == 2 && !n.Kids[0].Exp
}

func tagFor(n *ShapeNode) reflect.StructTag {
	switch n.Tag {
	case "value":
		return reflect.StructTag(fmt.Sprintf(`value:"${k%d}"`, n.ID))
	case "prop":
		return reflect.StructTag(fmt.Sprintf(`prop:"k%d"`, n.ID))
	case "cust":
		return reflect.StructTag(fmt.Sprintf(`cust:"c%d,arg=a%d"`, n.ID, n.ID))
	case "foreign":
		return reflect.StructTag(fmt.Sprintf(`json:"j%d"`, n.ID))
	case "prefix":
		return reflect.StructTag(fmt.Sprintf(`prefix:"k%d"`, n.ID))
	case "wire":
		return `wire:""`
	case "func":
		return `func:"ScanMark"`
	case "logger":
		return `logger:""`
	}
	return ""
}

// components the wire / func leaves resolve to
type scanDep struct{ name string }

func (d *scanDep) Naming() string { return d.name }

type scanMarked struct{}

func (*scanMarked) ScanMark() {}

type scanMarker interface{ ScanMark() }

func leafType(n *ShapeNode) reflect.Type {
	switch n.Tag {
	case "wire":
		return reflect.TypeOf(&scanDep{})
	case "func":
		return reflect.TypeOf((*scanMarker)(nil)).Elem()
	case "logger":
		return reflect.TypeOf((*syslog.Logger)(nil)).Elem()
	}
	return reflect.TypeOf("")
}

func typeOf(n *ShapeNode) reflect.Type {
	if n.K == "leaf" {
		if !n.Exp {
			return reflect.TypeOf("")
		}
		return leafType(n)
	}
	var t reflect.Type
	if isBlock(n) {
		t = blkTypes[n.Kids[0].ID]
	} else {
		t = structOf(n.Kids)
	}
	if n.Ptr {
		return reflect.PtrTo(t)
	}
	return t
}

var scanPositional bool

func structOf(fs []ShapeNode) reflect.Type {
	var fields []reflect.StructField
	for i := range fs {
		f := &fs[i]
		name := fmt.Sprintf("F%d", f.ID)
		if scanPositional && f.K == "leaf" {
			// leaves are named by their POSITION in the enclosing struct: fields of different (embedded) structs then share
			// names, an outer field shadows a promoted one - which must not matter to the scanner
			name = fmt.Sprintf("L%d", i+1)
		}
		t := typeOf(f)
		if f.K == "struct" && f.Anon && isBlock(f) && !f.Ptr {
			name = t.Name() // an embedded field carries its type's name
		}
		fields = append(fields, reflect.StructField{Name: name, Type: t, Tag: tagFor(f), Anonymous: f.K == "struct" && f.Anon})
	}
	return reflect.StructOf(fields)
}

type custRecorder struct {
	processors.DefaultTagScanDefinitionRegistryPostProcessor
	processors.DefaultInstantiationAwareComponentPostProcessor
	recs *[]map[string]any
}

func (c *custRecorder) Naming() string { return "zz-cust-recorder" }
func (c *custRecorder) PostProcessAfterInstantiation(component any, name string) (bool, error) {
	return true, nil
}
func (c *custRecorder) PostProcessProperties(ps []*component_definition.Property, component any, name string) ([]*component_definition.Property, error) {
	for _, p := range ps {
		if p.Tag == "cust" {
			arg := ""
			if a, ok := p.Args().Find("arg"); ok && len(a) > 0 {
				arg = a[0]
			}
			id := 0
			fmt.Sscanf(p.TagVal, "c%d", &id)
			*c.recs = append(*c.recs, map[string]any{"id": id, "val": p.TagVal, "arg": arg, "field": p.StructField.Name})
		}
	}
	return nil, nil
}

func walkLeaves(fs []ShapeNode, v reflect.Value, f func(n *ShapeNode, fv reflect.Value, reachable bool)) {
	for i := range fs {
		n := &fs[i]
		fv := v.Field(i)
		if n.K == "leaf" {
			f(n, fv, true)
			continue
		}
		if n.Ptr {
			if fv.IsNil() {
				var visit func(ks []ShapeNode)
				visit = func(ks []ShapeNode) {
					for j := range ks {
						if ks[j].K == "leaf" {
							f(&ks[j], reflect.Value{}, false)
						} else {
							visit(ks[j].Kids)
						}
					}
				}
				visit(n.Kids)
				continue
			}
			fv = fv.Elem()
		}
		walkLeaves(n.Kids, fv, f)
	}
}

func runShape(shape []ShapeNode) map[string]any {
	var root reflect.Value
	unexportedEmbed := -1
	for i := range shape {
		if shape[i].K == "struct" && !shape[i].Exp {
			unexportedEmbed = i
		}
	}
	switch {
	case unexportedEmbed == -1:
		root = reflect.New(structOf(shape))
	case len(shape) == 1:
		root = reflect.ValueOf(&rootUA{})
	case unexportedEmbed == 1:
		root = reflect.ValueOf(&rootUB{})
	default:
		root = reflect.ValueOf(&rootUC{})
	}
	cfg := map[string]any{}
	walkLeaves(shape, root.Elem(), func(n *ShapeNode, fv reflect.Value, reachable bool) {
		cfg[fmt.Sprintf("k%d", n.ID)] = fmt.Sprintf("v%d", n.ID)
		if reachable && fv.CanSet() && fv.Kind() == reflect.String {
			fv.SetString(fmt.Sprintf("init%d", n.ID))
		}
	})
	y, _ := yaml.Marshal(cfg)
	var recs []map[string]any
	rec := &custRecorder{recs: &recs}
	rec.Tag, rec.NodeType = "cust", component_definition.PropertyTypeConfiguration
	ok, panicked := true, false
	func() {
		defer func() {
			if x := recover(); x != nil {
				ok, panicked = false, true
			}
		}()
		if err := app.NewApp().Run(app.LogLevel(syslog.LvPanic), app.SetConfigLoader(loader.NewRawLoader(y)),
			app.SetComponents(root.Interface(), rec, &scanDep{"scan-dep"}, &scanMarked{})); err != nil {
			ok = false
		}
	}()
	leaves := []map[string]any{}
	walkLeaves(shape, root.Elem(), func(n *ShapeNode, fv reflect.Value, reachable bool) {
		val := "nil"
		init := fmt.Sprintf("init%d", n.ID)
		if reachable && fv.Kind() == reflect.String {
			val = fv.String()
			if !fv.CanSet() {
				init = ""
			}
		} else if reachable { // pointer / interface leaves: only whether something was injected
			init = "unset"
			val = "unset"
			if !fv.IsNil() {
				val = "set"
			}
		} else {
			init = "nil"
		}
		leaves = append(leaves, map[string]any{"id": n.ID, "val": val, "init": init})
	})
	if recs == nil {
		recs = []map[string]any{}
	}
	return map[string]any{"shape": shape, "leaves": leaves, "cust": recs, "ok": ok, "panic": panicked}
}

func fixKids(fs []ShapeNode) {
	for i := range fs {
		if fs[i].Kids == nil {
			fs[i].Kids = []ShapeNode{}
		}
		fixKids(fs[i].Kids)
	}
}

func cmdScan(in, out string) error {
	fi, err := os.Open(in)
	if err != nil {
		return err
	}
	defer fi.Close()
	fo, err := os.Create(out)
	if err != nil {
		return err
	}
	defer fo.Close()
	w := bufio.NewWriterSize(fo, 1<<20)
	defer w.Flush()
	enc := json.NewEncoder(w)
	sc := bufio.NewScanner(fi)
	sc.Buffer(make([]byte, 1<<20), 1<<24)
	n := 0
	for sc.Scan() {
		line := strings.TrimSpace(sc.Text())
		if line == "" {
			continue
		}
		var c struct {
			Shape []ShapeNode `json:"shape"`
			Pos   bool        `json:"pos"`
		}
		if err := json.Unmarshal([]byte(line), &c); err != nil {
			return err
		}
		fixKids(c.Shape)
		scanPositional = c.Pos
		rec := runShape(c.Shape)
		rec["pos"] = c.Pos
		_ = enc.Encode(rec)
		n++
	}
	fmt.Fprintf(os.Stderr, "scan: %d shapes\n", n)
	return sc.Err()
}
